(* Names: executable mirror of the naming / lookup behaviour of
     numbers_parser.containers.ItemsList   (__getitem__ for int and str, __contains__, __len__, append)
     numbers_parser.document.Document.add_sheet
     numbers_parser.document.Sheet.add_table / _add_table
     the name setters Sheet.name / Table.name (no check, as in the code)
   A collection is the list of its items' names in iteration order (the
   position is the item's identity); a document is a list of sheets, each a
   name with the list of its table names.
   Python's str.lower() is a Section function [lower]. *)
From Coq Require Import ZArith NArith List Bool Lia.
From NP Require Import Model.PyBase.
Import ListNotations.
Open Scope N_scope.

(* ASCII lowering, the behaviour assumed of str.lower() on ASCII-only strings *)
Definition ascii_lower_c (c : chr) : chr := if is_upper c then c + 32 else c.
Definition ascii_lower (s : str) : str := map ascii_lower_c s.
Definition is_ascii (s : str) : bool := forallb (fun c => c <? 128) s.

(* ---------- list.__getitem__(int) of a Python list: the raising behaviour ---------- *)
Definition py_list_idx (len : nat) (j : Z) : result nat :=
  let n := Z.of_nat len in
  let j1 := if (j <? 0)%Z then (j + n)%Z else j in
  if ((j1 <? 0) || (j1 >=? n))%Z then Err PopEmpty else Ok (Z.to_nat j1).

(* ---------- ItemsList.__getitem__(int) ----------
   repaired code (fixes/C19-itemslist-negative-index.patch):
       if key < 0: key += len(self._items)
       if key < 0 or key >= len(self._items): raise IndexError
       return self._items[key]                                   *)
Definition get_idx (len : nat) (k : Z) : result nat :=
  let n := Z.of_nat len in
  let k1 := if (k <? 0)%Z then (k + n)%Z else k in
  if ((k1 <? 0) || (k1 >=? n))%Z then Err IndexError
  else py_list_idx len k1.

(* pinned code: only `if key >= len(self._items): raise IndexError`, then the
   (possibly still negative) key goes to the Python list *)
Definition get_idx_pinned (len : nat) (k : Z) : result nat :=
  let n := Z.of_nat len in
  let k1 := if (k <? 0)%Z then (k + n)%Z else k in
  if (k1 >=? n)%Z then Err IndexError
  else py_list_idx len k1.

Definition fetch {A} (it : list A) (i : nat) : result A :=
  match nth_error it i with Some x => Ok x | None => Err PopEmpty end.

Definition get {A} (it : list A) (k : Z) : result A :=
  do i <- get_idx (length it) k ; fetch it i.
Definition get_pinned {A} (it : list A) (k : Z) : result A :=
  do i <- get_idx_pinned (length it) k ; fetch it i.

(* ---------- ItemsList.__getitem__(str): first item with item.name == key ---------- *)
Fixpoint find_name (it : list str) (key : str) (i : nat) : result nat :=
  match it with
  | [] => Err KeyError
  | x :: r => if str_eqb x key then Ok i else find_name r key (S i)
  end.
Definition get_by_name (it : list str) (key : str) : result nat := find_name it key O.

(* f"{prefix} {n}" *)
Definition auto_name (prefix : str) (n : N) : str := prefix ++ [c_space] ++ N_to_str n.

Fixpoint replace_at {A} (l : list A) (i : nat) (x : A) : list A :=
  match l, i with
  | [], _ => []
  | _ :: r, O => x :: r
  | y :: r, S i' => y :: replace_at r i' x
  end.

Section Names.
Variable lower : str -> str.

(* ItemsList.__contains__: key.lower() in [x.name.lower() for x in self._items] *)
Definition contains (it : list str) (key : str) : bool :=
  existsb (str_eqb (lower key)) (map lower it).

(* n = 1; while f"{prefix} {n}" in items: n += 1 *)
Fixpoint auto_loop (fuel : nat) (it : list str) (prefix_lc : str) (n : N) : result N :=
  match fuel with
  | O => Err OutOfFuel
  | S f => if contains it (auto_name prefix_lc n) then auto_loop f it prefix_lc (n + 1) else Ok n
  end.

(* the common head of Document.add_sheet and Sheet._add_table *)
Definition choose_name (it : list str) (name : option str) (Prefix prefix_lc : str) : result str :=
  match name with
  | Some n => if contains it n then Err IndexError else Ok n
  | None => do m <- auto_loop (length it + 1) it prefix_lc 1 ; Ok (auto_name Prefix m)
  end.

(* collection-level operations *)
Definition add_named (it : list str) (n : str) : result (list str) :=
  do n' <- choose_name it (Some n) [] [] ; Ok (it ++ [n']).
Definition add_auto (it : list str) (Prefix prefix_lc : str) : result (list str) :=
  do n' <- choose_name it None Prefix prefix_lc ; Ok (it ++ [n']).
Definition rename (it : list str) (k : Z) (n : str) : result (list str) :=
  do i <- get_idx (length it) k ; Ok (replace_at it i n).

(* ---------- documents ---------- *)
Definition sheet : Type := str * list str.
Definition doc : Type := list sheet.
Definition sheet_names (d : doc) : list str := map fst d.

Definition Sheet_P : str := [83;104;101;101;116].    (* "Sheet" *)
Definition sheet_p : str := [115;104;101;101;116].   (* "sheet" *)
Definition Table_P : str := [84;97;98;108;101].      (* "Table" *)
Definition table_p : str := [116;97;98;108;101].     (* "table" *)

(* Document.add_sheet(sheet_name, table_name): name check / generation first,
   then `self._sheets[-1]._tables[0]` (template table), then append *)
Definition add_sheet (d : doc) (name : option str) (tname : str) : result doc :=
  do n <- choose_name (sheet_names d) name Sheet_P sheet_p ;
  do last <- get d (-1) ;
  do _t0 <- get (snd last) 0 ;
  Ok (d ++ [(n, [tname])]).

(* doc.sheets[si].add_table(name): `self._tables[-1]` first, then _add_table *)
Definition add_table (d : doc) (si : Z) (name : option str) : result doc :=
  do i <- get_idx (length d) si ;
  do s <- fetch d i ;
  do _last <- get (snd s) (-1) ;
  do n <- choose_name (snd s) name Table_P table_p ;
  Ok (replace_at d i (fst s, snd s ++ [n])).

(* doc.sheets[si].name = v        (no check in the code) *)
Definition rename_sheet (d : doc) (si : Z) (v : str) : result doc :=
  do i <- get_idx (length d) si ;
  do s <- fetch d i ;
  Ok (replace_at d i (v, snd s)).

(* doc.sheets[si].tables[ti].name = v *)
Definition rename_table (d : doc) (si ti : Z) (v : str) : result doc :=
  do i <- get_idx (length d) si ;
  do s <- fetch d i ;
  do j <- get_idx (length (snd s)) ti ;
  Ok (replace_at d i (fst s, replace_at (snd s) j v)).

Inductive op : Type :=
| AddSheet (name : option str) (tname : str)
| AddTable (si : Z) (name : option str)
| RenameSheet (si : Z) (v : str)
| RenameTable (si ti : Z) (v : str).

Definition apply (d : doc) (o : op) : result doc :=
  match o with
  | AddSheet n t => add_sheet d n t
  | AddTable si n => add_table d si n
  | RenameSheet si v => rename_sheet d si v
  | RenameTable si ti v => rename_table d si ti v
  end.

(* every raise in the code happens before the first mutation: a failed
   operation leaves the document as it was *)
Definition step (d : doc) (o : op) : doc * result unit :=
  match apply d o with Ok d' => (d', Ok tt) | Err e => (d, Err e) end.

Fixpoint run (d : doc) (h : list op) : doc :=
  match h with [] => d | o :: r => run (fst (step d o)) r end.

End Names.
