(* Digits: exact decimal arithmetic used by the number formatting model (C13).

   A decimal is a scaled integer  (-1)^dneg * dmant * 10^dexp  with dmant >= 0.
   It is what reaches the formatter: the digits of Python's str(value)
   (repr of a float, digits of an int).  Everything here is integer arithmetic:
   - [rhu_at]     sigfig's _Number.round_by_decimals : half-up on the digit string, with carry
   - [round_sig]  sigfig.round(x, sigfigs=s)
   - [bdigs]/[zstr]/[bval] digit strings in a base (10 for decimals, 2..36 for base formats)
   - [group3]     3-digit grouping (sigfig decimate with spacer=',' spacing=3 on the integer part;
                  Python's format(n, ','))
   - [rne_div], [round_float], [b64_of_rat]  round-half-even, rounding of a positive rational to P
                  digits in a base, and its instance the correctly rounded binary64 value (normal
                  range), used where the code computes in floats or prints them with '%E'. *)
From Coq Require Import ZArith NArith List Bool Lia.
From NP Require Import Model.PyBase.
Import ListNotations.
Open Scope Z_scope.

Record dec : Type := mkdec { dneg : bool; dmant : Z; dexp : Z }.

(* ---------- number of digits ---------- *)
Fixpoint nbdig_aux (fuel : nat) (b n : Z) : Z :=
  match fuel with
  | O => 0
  | S f => if n <=? 0 then 0 else 1 + nbdig_aux f b (n / b)
  end.
(* number of base-b digits of n (0 for n <= 0); the fuel covers every n for b >= 2 *)
Definition nbdig (b n : Z) : Z := nbdig_aux (S (Z.to_nat (Z.log2 n))) b n.
Definition ndig (n : Z) : Z := nbdig 10 n.

(* ---------- rounding ---------- *)
(* |x| = mant * 10^ex rounded half-up to a multiple of 10^lp, result in units of 10^lp.
   sigfig: round_by_decimals(-lp).  When the number has no digit below 10^lp it is exact. *)
Definition rhu_at (mant ex lp : Z) : Z :=
  if lp <=? ex then mant * 10 ^ (ex - lp)
  else (mant + 5 * 10 ^ (lp - ex - 1)) / 10 ^ (lp - ex).

(* sigfig.round(x, sigfigs=s): (mantissa, exponent) of the result *)
Definition round_sig (s mant ex : Z) : Z * Z :=
  let k := ndig mant in
  if k <=? s then (mant, ex) else (rhu_at mant ex (ex + k - s), ex + k - s).

(* round half even of n/d  (n >= 0, d > 0): Python round() on an exact value *)
Definition rne_div (n d : Z) : Z :=
  let q := n / d in
  let r := n mod d in
  if (d <? 2 * r) || ((2 * r =? d) && Z.odd q) then q + 1 else q.

(* ---------- floating point rounding ---------- *)
(* n / (d * b^e) written with non-negative powers only *)
Definition scA (b n e : Z) : Z := if 0 <=? e then n else n * b ^ (- e).
Definition scB (b d e : Z) : Z := if 0 <=? e then d * b ^ e else d.

(* n/d (n, d > 0) rounded to P digits in base b, nearest with ties to even: (m, e) with value
   m * b^e and b^(P-1) <= m < b^P.  The exponent is guessed from the digit counts and corrected
   once; a carry out of the rounding (m = b^P) moves to the next exponent. *)
Definition round_float (b P n d : Z) : Z * Z :=
  let e0 := nbdig b n - nbdig b d - P in
  let q0 := scA b n e0 / scB b d e0 in
  let e := if b ^ P <=? q0 then e0 + 1 else e0 in
  let m := rne_div (scA b n e) (scB b d e) in
  if m =? b ^ P then (b ^ (P - 1), e + 1) else (m, e).

(* correctly rounded binary64 value of n/d (normal range: subnormals and overflow are not modelled) *)
Definition b64_of_rat (n d : Z) : Z * Z := round_float 2 53 n d.

Definition rat_of_b64 (me : Z * Z) : Z * Z :=
  let (m, e) := me in if 0 <=? e then (m * 2 ^ e, 1) else (m, 2 ^ (- e)).

(* ---------- digit strings ---------- *)
Definition bchar (d : Z) : N := Z.to_N (if d <? 10 then 48 + d else 55 + d).
Definition cval (c : N) : Z := if (c <? 58)%N then Z.of_N c - 48 else Z.of_N c - 55.

(* exactly w digits of n in base b, most significant first (n mod b^w) *)
Fixpoint bdigs (b : Z) (w : nat) (n : Z) : list N :=
  match w with
  | O => []
  | S w' => bdigs b w' (n / b) ++ [bchar (n mod b)]
  end.
Definition digs (w : nat) (n : Z) : list N := bdigs 10 w n.

(* value of a digit string *)
Definition bval (b : Z) (s : list N) : Z := fold_left (fun a c => a * b + cval c) s 0.

(* str(n) for n >= 0 *)
Definition zstr (n : Z) : list N := if n <=? 0 then [48%N] else digs (Z.to_nat (ndig n)) n.
(* str(n) for any n *)
Definition sstr (n : Z) : list N := if n <? 0 then 45%N :: zstr (- n) else zstr n.
(* digits of n > 0 in base b, "" for 0: the while-loop of _format_base *)
Definition to_base (b n : Z) : list N := if n <=? 0 then [] else bdigs b (Z.to_nat (nbdig b n)) n.

Definition zlen (s : list N) : Z := Z.of_nat (length s).
Definition rjust (w : Z) (c : N) (s : list N) : list N := repeat c (Z.to_nat (w - zlen s)) ++ s.
Definition zfill (w : Z) (s : list N) : list N := rjust w 48%N s.
Definition zeros (k : Z) : list N := repeat 48%N (Z.to_nat k).

(* ---------- grouping ---------- *)
Definition c_comma : N := 44%N.
(* on the reversed digit list: a comma before every digit whose index is a positive multiple of 3 *)
Fixpoint grp (l : list N) (i : nat) : list N :=
  match l with
  | [] => []
  | c :: r => (if (Nat.ltb 0 i) && (Nat.eqb (Nat.modulo i 3) 0) then [c_comma] else []) ++ c :: grp r (S i)
  end.
Definition group3 (s : list N) : list N := rev (grp (rev s) 0).

(* strip trailing zeros of a mantissa (repr digits never end in 0) *)
Fixpoint strip0 (fuel : nat) (m e : Z) : Z * Z :=
  match fuel with
  | O => (m, e)
  | S f => if (0 <? m) && (m mod 10 =? 0) then strip0 f (m / 10) (e + 1) else (m, e)
  end.
