(* Line protocol entry for the C20 Csv model.  Tab separated fields; text is a comma separated
   list of decimal code points; a cell is "=" text; a row is "+" cell ";" cell ...; rows are
   separated by "/".
     conv <flags> <floats> <rows>   csv2numbers + reopen: "ok" TAB table  (cells "T=text" "N=text" "E=")  or "!Exn"
     main <flags> <floats> M | T<text>   outcome of csv2numbers main: exit0 / reported / crash:<Exn>
     rt   <flags> <floats> <text>   csv text -> csv2numbers -> cat-numbers -b : text of the output or "!Exn"
     csvw <rows>                    csv.writer(dialect="excel") output as text
     csvr <strict> <text>           csv.reader(dialect="excel", strict=..) rows or "!Exn"
     ws   <text>                    re.sub(r"\s+", " ", v.strip())
     sp   <lo> <hi>                 the code points c, lo <= c < hi, with chr(c).isspace()
   flags: four characters 0/1: no_header reverse whitespace finite_only
   floats: entries "text:K" or "text:K:text" separated by ";" - Python's float() of every distinct
           cell text without commas: F finite (with the expected exported repr), U finite but not
           storable (Document.save raises; unused on the current tree), I infinite, N nan;
           absent = ValueError *)
From Coq Require Import ZArith NArith List Bool.
From NP Require Import Model.PyBase Model.Csv.
Import ListNotations.
Open Scope N_scope.

Definition parse_cps (s : list N) : list N :=
  match s with [] => [] | _ => map digits_to_N (split_on 44 s []) end.
Definition show_cps (s : list N) : list N := join [44] (map N_to_str s).
Definition parse_cell (s : list N) : list N :=
  match s with 61 :: r => parse_cps r | _ => [] end.
Definition parse_list (sep : N) (s : list N) : list (list N) :=
  match s with [] => [] | _ => split_on sep s [] end.
Definition parse_row (s : list N) : list (list N) :=
  match s with 43 :: r => map parse_cell (parse_list 59 r) | _ => [] end.
Definition parse_rows (s : list N) : list (list (list N)) := map parse_row (parse_list 47 s).
Definition show_row (r : list (list N)) : list N := 43 :: join [59] (map (fun c => 61 :: show_cps c) r).
Definition show_rows (rs : list (list (list N))) : list N := join [47] (map show_row rs).

(* the float of the entry: (expected repr, storable) *)
Definition FV : Type := (list N * bool)%type.

Definition parse_floats (s : list N) : list (list N * pyfloatval FV) :=
  map (fun e => match split_on 58 e [] with
                | [t; [70]; r] => (parse_cps t, Finite (parse_cps r, true))
                | [t; [85]; r] => (parse_cps t, Finite (parse_cps r, false))
                | [t; [73]] => (parse_cps t, Inf)
                | [t; _] => (parse_cps t, NaN)
                | _ => ([], NaN)
                end) (parse_list 59 s).

Definition mk_pyfloat (tab : list (list N * pyfloatval FV)) (s : list N) : option (pyfloatval FV) :=
  match find (fun p => str_eqb (fst p) s) tab with
  | Some p => Some (snd p)
  | None => None
  end.

Definition e_sig15 (f : FV) : FV := f.
Definition e_stored (f : FV) : result FV := if snd f then Ok f else Err (OtherCrash 3).
Definition e_frepr (f : FV) : list N := fst f.

Definition flag (c : N) : bool := c =? 49.
Definition parse_flags (s : list N) : flags :=
  match s with
  | [a; b; c; d] => mkFlags (flag a) (flag b) (flag c) (flag d)
  | _ => mkFlags false false false true
  end.

Definition show_cell (c : cell FV) : list N :=
  match c with
  | CText s => 84 :: 61 :: show_cps s
  | CNum g => 78 :: 61 :: show_cps (e_frepr (e_sig15 g))
  | CEmpty => [69; 61]
  end.
Definition show_table (t : list (list (cell FV))) : list N :=
  join [47] (map (fun r => 43 :: join [59] (map show_cell r)) t).

Definition show_exn (e : pyexn) : list N :=
  match e with
  | OtherCrash 1 => 33 :: [83;116;111;112;73;116;101;114;97;116;105;111;110]           (* StopIteration *)
  | OtherCrash 3 => 33 :: [90;101;114;111;68;105;118;105;115;105;111;110;69;114;114;111;114]   (* ZeroDivisionError *)
  | PopEmpty => 33 :: [73;110;100;101;120;69;114;114;111;114]                          (* IndexError *)
  | ValueError => 33 :: [86;97;108;117;101;69;114;114;111;114]
  | _ => show_err e
  end.

Fixpoint space_scan (fuel : nat) (c : N) : list N :=
  match fuel with
  | O => []
  | S f => if is_space c then c :: space_scan f (c + 1) else space_scan f (c + 1)
  end.
Definition space_list (lo hi : N) : list N := space_scan (N.to_nat (hi - lo)) lo.

Definition handle (line : list N) : list N :=
  match fields line with
  | [[99;111;110;118]; fl; ft; rows] =>
    match convert FV (mk_pyfloat (parse_floats ft)) e_sig15 e_stored (parse_flags fl) (parse_rows rows) with
    | Ok t => [111;107;9] ++ show_table t
    | Err e => show_exn e
    end
  | [[109;97;105;110]; fl; ft; file] =>
    let f := match file with 84 :: r => Text (parse_cps r) | _ => Missing end in
    match run_main FV (mk_pyfloat (parse_floats ft)) e_sig15 e_stored (parse_flags fl) f with
    | Exit0 => [101;120;105;116;48]
    | Reported => [114;101;112;111;114;116;101;100]
    | Crashed e => [99;114;97;115;104;58] ++ match show_exn e with _ :: r => r | [] => [] end
    end
  | [[114;116]; fl; ft; text] =>
    match roundtrip_text FV (mk_pyfloat (parse_floats ft)) e_sig15 e_stored e_frepr (parse_flags fl) (parse_cps text) with
    | Ok s => 61 :: show_cps s
    | Err e => show_exn e
    end
  | [[99;115;118;119]; rows] => show_cps (write_excel (parse_rows rows))
  | [[99;115;118;119]] => show_cps (write_excel [])
  | [[99;115;118;114]; st; text] =>
    match read_excel (match st with [49] => true | _ => false end) (parse_cps text) with
    | Ok rs => [111;107;9] ++ show_rows rs
    | Err e => show_exn e
    end
  | [[119;115]; text] => show_cps (normalize_ws (parse_cps text))
  | [[115;112]; lo; hi] => show_cps (space_list (digits_to_N lo) (digits_to_N hi))
  | _ => [63]
  end.
