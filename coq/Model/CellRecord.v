(* CellRecord: executable mirror of Cell._from_storage (flag walk) and
   Cell._to_buffer (record emission) of numbers_parser/cell.py, v5 layout.
   Payload bytes are raw here (their numeric meaning is D128.v / FloatConv). *)
From Coq Require Import ZArith NArith List Bool Lia.
From NP Require Import Model.PyBase.
Import ListNotations.
Open Scope N_scope.

(* ---------- the documented layout: 21 flag bits, ascending ---------- *)
Record lent := { lbit : N; lwidth : nat; lread : bool }.
Definition L (b : N) (w : nat) (r : bool) := {| lbit := b; lwidth := w; lread := r |}.

(* docs/Numbers.md defers to the SheetJS IWA notes for the order of the optional fields *)
Definition doc_layout : list lent :=
  [ L 0 16 true;   (* 0x1      decimal128 *)
    L 1 8 true;    (* 0x2      double *)
    L 2 8 true;    (* 0x4      seconds *)
    L 3 4 true;    (* 0x8      string id *)
    L 4 4 true;    (* 0x10     rich text id *)
    L 5 4 true;    (* 0x20     cell style id *)
    L 6 4 true;    (* 0x40     text style id *)
    L 7 4 false;   (* 0x80     conditional style id: not interpreted *)
    L 8 4 false;   (* 0x100    conditional rule style id: not interpreted *)
    L 9 4 true;    (* 0x200    formula id *)
    L 10 4 true;   (* 0x400    control id *)
    L 11 4 false;  (* 0x800    formula error id: not interpreted *)
    L 12 4 true;   (* 0x1000   suggest id *)
    L 13 4 true;   (* 0x2000   number format id *)
    L 14 4 true;   (* 0x4000   currency format id *)
    L 15 4 true;   (* 0x8000   date format id *)
    L 16 4 true;   (* 0x10000  duration format id *)
    L 17 4 true;   (* 0x20000  text format id *)
    L 18 4 true;   (* 0x40000  bool format id *)
    L 19 4 false;  (* 0x80000  comment id: not interpreted, nothing read after it *)
    L 20 4 false   (* 0x100000 import warning id *) ].

(* what Cell._from_storage walks: bits 0..18 (the two trailing fields are never reached) *)
Definition decode_layout : list lent := firstn 19 doc_layout.

Definition is_some {A} (o : option A) : bool := match o with Some _ => true | None => false end.

(* ---------- generic flag walk ---------- *)
Definition vals := list (option (list N)).

Fixpoint walk (Ls : list lent) (flags : N) (buf : list N) : result (vals * list N) :=
  match Ls with
  | [] => Ok ([], buf)
  | f :: Ls' =>
    if N.testbit flags (lbit f) then
      if lread f then
        if Nat.leb (lwidth f) (length buf) then
          match walk Ls' flags (skipn (lwidth f) buf) with
          | Ok (vs, r) => Ok (Some (firstn (lwidth f) buf) :: vs, r)
          | Err e => Err e
          end
        else Err (if Nat.eqb (lwidth f) 16 then PopEmpty else StructError)
             (* short slice: _unpack_decimal128 indexes [15] -> IndexError; struct.unpack -> struct.error *)
      else
        match walk Ls' flags (skipn (lwidth f) buf) with   (* `offset += 4`, no check *)
        | Ok (vs, r) => Ok (None :: vs, r)
        | Err e => Err e
        end
    else
      match walk Ls' flags buf with
      | Ok (vs, r) => Ok (None :: vs, r)
      | Err e => Err e
      end
  end.

Fixpoint emit (vs : vals) : list N :=
  match vs with Some p :: r => p ++ emit r | None :: r => emit r | [] => [] end.

Fixpoint flags_of (Ls : list lent) (vs : vals) : N :=
  match Ls, vs with
  | f :: Ls', Some _ :: vs' => N.lor (2 ^ lbit f) (flags_of Ls' vs')
  | _ :: Ls', None :: vs' => flags_of Ls' vs'
  | _, _ => 0
  end.

(* values the decoder reports for a record built over a layout: uninterpreted fields dropped *)
Fixpoint mask (Ls : list lent) (vs : vals) : vals :=
  match Ls, vs with
  | f :: Ls', v :: vs' => (if lread f then v else None) :: mask Ls' vs'
  | _, _ => []
  end.

(* ---------- signed 32-bit little-endian (struct '<i') ---------- *)
Definition i32_ok (z : Z) : bool := ((-2147483648 <=? z) && (z <=? 2147483647))%Z.
Definition pack_i32 (z : Z) : list N := le_bytes 4 (Z.to_N (z mod 4294967296)%Z).
Definition unpack_i32 (b : list N) : Z :=
  let u := Z.of_N (le_val b) in if (u <? 2147483648)%Z then u else (u - 4294967296)%Z.

(* ---------- decoder: Cell._from_storage up to the cell-type dispatch ---------- *)
Record decoded := {
  d_type : N;          (* buffer[1] *)
  d_extras : N;        (* unpack('<H', buffer[6:8]) *)
  d_flags : Z;         (* unpack('<i', buffer[8:12]) *)
  d_vals : vals        (* aligned with decode_layout; None = absent or not interpreted *)
}.

Definition known_type (t : N) : bool :=
  (t =? 0) || (t =? 2) || (t =? 3) || (t =? 5) || (t =? 6) || (t =? 7) || (t =? 8) || (t =? 9) || (t =? 10).

Definition decode (buf : list N) : result decoded :=
  match buf with
  | [] => Err PopEmpty                                   (* buffer[0] -> IndexError *)
  | v :: _ =>
    if negb (v =? 5) then Err UnsupportedError else
    if Nat.ltb (length buf) 12 then Err StructError      (* unpack('<i', buffer[8:12]) on a short slice *)
    else
      let flags := le_val (slice buf 8 12) in
      match walk decode_layout flags (skipn 12 buf) with
      | Err e => Err e
      | Ok (vs, _) =>
        let t := nth 1 buf 0 in
        let present i := is_some (nth i vs None) in
        if negb (known_type t) then Err UnsupportedError
        else if ((t =? 5) && negb (present 2%nat)) || (((t =? 6) || (t =? 7)) && negb (present 1%nat))
        then Err TypeError      (* timedelta(seconds=None) / None > 0.0 *)
        else Ok {| d_type := t; d_extras := le_val (slice buf 6 8);
                   d_flags := unpack_i32 (slice buf 8 12); d_vals := vs |}
      end
  end.

(* ---------- encoder: Cell._to_buffer ---------- *)
Inductive ckind := KNumber | KCurrency | KText | KDate | KBool | KDuration | KEmpty | KRichText.

Definition kind_type (k : ckind) : N :=
  match k with KNumber => 2 | KCurrency => 10 | KText => 3 | KDate => 5 | KBool => 6
             | KDuration => 7 | KEmpty => 0 | KRichText => 9 end.
(* payload flag bit and width per kind: `flags = 1; length += 16`, ... *)
Definition kind_slot (k : ckind) : option (N * nat) :=
  match k with KNumber | KCurrency => Some (0, 16%nat) | KText => Some (3, 4%nat) | KDate => Some (2, 8%nat)
             | KBool | KDuration => Some (1, 8%nat) | KEmpty | KRichText => None end.

Record cell := {
  c_kind : ckind;
  c_payload : list N;               (* the packed value: 16 / 8 / 4 bytes, [] for Empty and RichText *)
  c_string_id_set : bool;           (* `self._string_id is not None` (only feeds extras bit 0x80) *)
  c_rich : option Z; c_cell_style : option Z; c_text_style : option Z;
  c_formula : option Z; c_control : option Z; c_suggest : option Z;
  c_num_fmt : option Z; c_cur_fmt : option Z; c_date_fmt : option Z;
  c_dur_fmt : option Z; c_text_fmt : option Z; c_bool_fmt : option Z
}.

Definition opt_i32 (o : option Z) : option (list N) := option_map pack_i32 o.

(* the record's optional values aligned with doc_layout *)
Definition slot_val (c : cell) (b : N) : option (list N) :=
  match kind_slot (c_kind c) with Some (b', _) => if b =? b' then Some (c_payload c) else None | None => None end.
Definition cell_vals (c : cell) : vals :=
  [ slot_val c 0; slot_val c 1; slot_val c 2; slot_val c 3;
    opt_i32 (c_rich c); opt_i32 (c_cell_style c); opt_i32 (c_text_style c);
    None; None;
    opt_i32 (c_formula c); opt_i32 (c_control c);
    None;
    opt_i32 (c_suggest c);
    opt_i32 (c_num_fmt c); opt_i32 (c_cur_fmt c); opt_i32 (c_date_fmt c);
    opt_i32 (c_dur_fmt c); opt_i32 (c_text_fmt c); opt_i32 (c_bool_fmt c);
    None; None ].

Definition bitif (b : bool) (v : N) : N := if b then v else 0.
Definition extras6 (c : cell) : N :=
  N.lor (bitif (is_some (c_num_fmt c)) 1)
 (N.lor (bitif (is_some (c_cur_fmt c)) 2)
 (N.lor (bitif (is_some (c_date_fmt c)) 8)
 (N.lor (bitif (is_some (c_dur_fmt c)) 4)
 (N.lor (bitif (is_some (c_bool_fmt c)) 32)
        (bitif (c_string_id_set c) 128))))).

(* literal transcription of the emission chain: payload, then each `if self._x_id is not None` block in source order *)
Definition enc_step (bit : N) (o : option Z) (st : N * list N) : N * list N :=
  match o with Some z => (N.lor (fst st) (2 ^ bit), snd st ++ pack_i32 z) | None => st end.

Definition encode (c : cell) : list N :=
  let flags0 := match kind_slot (c_kind c) with Some (b, _) => 2 ^ b | None => 0 end in
  let value := match kind_slot (c_kind c) with Some _ => c_payload c | None => [] end in
  let st := (flags0, value) in
  let st := enc_step 4 (c_rich c) st in
  let st := enc_step 5 (c_cell_style c) st in
  let st := enc_step 6 (c_text_style c) st in
  let st := enc_step 9 (c_formula c) st in
  let st := enc_step 10 (c_control c) st in
  let st := enc_step 12 (c_suggest c) st in
  let st := enc_step 13 (c_num_fmt c) st in
  let st := enc_step 14 (c_cur_fmt c) st in
  let st := enc_step 15 (c_date_fmt c) st in
  let st := enc_step 16 (c_dur_fmt c) st in
  let st := enc_step 17 (c_text_fmt c) st in
  let st := enc_step 18 (c_bool_fmt c) st in
  [5; kind_type (c_kind c); 0; 0; 0; 0; extras6 c; 0] ++ le_bytes 4 (fst st) ++ snd st.

(* well-formed cell: ids fit struct '<i', payload has the width of its kind *)
Definition opt_ok (o : option Z) : bool := match o with Some z => i32_ok z | None => true end.
Definition wf_cell (c : cell) : bool :=
  Nat.eqb (length (c_payload c)) (match kind_slot (c_kind c) with Some (_, w) => w | None => 0%nat end)
  && opt_ok (c_rich c) && opt_ok (c_cell_style c) && opt_ok (c_text_style c)
  && opt_ok (c_formula c) && opt_ok (c_control c) && opt_ok (c_suggest c)
  && opt_ok (c_num_fmt c) && opt_ok (c_cur_fmt c) && opt_ok (c_date_fmt c)
  && opt_ok (c_dur_fmt c) && opt_ok (c_text_fmt c) && opt_ok (c_bool_fmt c).

(* independent reference encoder written from the documented layout: any subset of the 21 fields *)
Definition ref_encode (t : N) (extras : N) (vs : vals) : list N :=
  [5; t; 0; 0; 0; 0; extras; 0] ++ le_bytes 4 (flags_of doc_layout vs) ++ emit vs.

Fixpoint fits (Ls : list lent) (vs : vals) : Prop :=
  match Ls, vs with
  | [], [] => True
  | f :: Ls', Some p :: vs' => length p = lwidth f /\ fits Ls' vs'
  | _ :: Ls', None :: vs' => fits Ls' vs'
  | _, _ => False
  end.

(* tables compared with the translator's reading of the source (Gen/GenCellRecord.v) *)
Definition decode_chain_table : list (N * N * bool) :=
  map (fun f => (2 ^ lbit f, N.of_nat (lwidth f), lread f)) decode_layout.
Definition encode_chain_table : list N :=   (* flag masks in emission order after the payload *)
  [16; 32; 64; 512; 1024; 4096; 8192; 16384; 32768; 65536; 131072; 262144].
