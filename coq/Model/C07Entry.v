(* Line protocol of the C07 model (Model/Package.v).  Tab separated fields; names are hex of their UTF-8 bytes.

     pkg <last> <D> <Dd> <members> <components> <datas> <objects>      -> ok | defect;defect;...
         D, Dd      : oid:rid,oid:rid,...
         members    : hexname:added,...
         components : id:hexlocator:hexpreferred:added:EXT:UUID,...   EXT = comp.obj.added/...  (obj "-" if absent)
                                                                      UUID = id.added/...
         datas      : id:hexfile:added,...
         objects    : id:memberindex:type:added:touched:refs:hrefs:drefs:hdrefs,...   (reference lists "." separated)
     tbl <id> <nrows> <ncols> <tiles>                                   -> ok | defect;...
         tiles      : tile|tile|...   tile = tileid;numrows;row;row;...   row = index:count:wide:slen:offs:flags
                      (offs, flags "," separated)
     abs <cells csv: hex record | e (empty record) | - (no record)>     -> offs csv \t flags csv \t slen \t count  | !Error
                                                                           (pack_row, then the abstraction abs_row)
     tsz <nrows>                                                        -> tile sizes csv            (tiles_of)
     ids <keys csv> <last> <ops: string of n / c>                       -> ids csv \t max \t last \t nkeys | !Error *)
From Coq Require Import ZArith NArith List Bool.
From NP Require Import Model.PyBase Model.TileCodec Model.Package.
Import ListNotations.
Open Scope N_scope.

Definition sep_on (c : N) (s : list N) : list (list N) := match s with [] => [] | _ => split_on_fast c s [] end.
Definition nat_of (s : list N) : N := digits_to_N s.
Definition flag (s : list N) : bool := match s with [49] => true | _ => false end.
Definition nums (c : N) (s : list N) : list N := map nat_of (sep_on c s).

Definition parse_pairs (s : list N) : list (N * N) :=
  map (fun it => match split_on_fast 58 it [] with [a; b] => (nat_of a, nat_of b) | _ => (0, 0) end) (sep_on 44 s).

Definition parse_member (it : list N) : member :=
  match split_on_fast 58 it [] with
  | [n; a] => {| m_name := bytes_of_hex n; m_added := flag a |}
  | _ => {| m_name := []; m_added := false |}
  end.

Definition parse_ext (it : list N) : extref :=
  match split_on_fast 46 it [] with
  | [x; y; a] => {| x_comp := nat_of x; x_obj := match y with [45] => None | _ => Some (nat_of y) end; x_added := flag a |}
  | _ => {| x_comp := 0; x_obj := None; x_added := false |}
  end.
Definition parse_uuid (it : list N) : N * bool :=
  match split_on_fast 46 it [] with [u; a] => (nat_of u, flag a) | _ => (0, false) end.

Definition parse_component (it : list N) : component :=
  match split_on_fast 58 it [] with
  | [i; l; pr; a; ex; uu] =>
    {| c_id := nat_of i; c_locator := bytes_of_hex l; c_preferred := bytes_of_hex pr; c_added := flag a;
       c_ext := map parse_ext (sep_on 47 ex); c_uuid := map parse_uuid (sep_on 47 uu) |}
  | _ => {| c_id := 0; c_locator := []; c_preferred := []; c_added := false; c_ext := []; c_uuid := [] |}
  end.

Definition parse_data (it : list N) : datainfo :=
  match split_on_fast 58 it [] with
  | [i; f; a] => {| d_id := nat_of i; d_file := bytes_of_hex f; d_added := flag a |}
  | _ => {| d_id := 0; d_file := []; d_added := false |}
  end.

Definition parse_obj (it : list N) : obj :=
  match split_on_fast 58 it [] with
  | [i; f; t; a; tc; r; hr; dr; hdr] =>
    {| o_id := nat_of i; o_file := nat_of f; o_type := nat_of t; o_added := flag a; o_touched := flag tc;
       o_refs := nums 46 r; o_hrefs := nums 46 hr; o_drefs := nums 46 dr; o_hdrefs := nums 46 hdr |}
  | _ => {| o_id := 0; o_file := 0; o_type := 0; o_added := false; o_touched := false;
            o_refs := []; o_hrefs := []; o_drefs := []; o_hdrefs := [] |}
  end.

Definition parse_row (it : list N) : prow :=
  match split_on_fast 58 it [] with
  | [i; c; w; sl; offs; fl] =>
    {| r_index := nat_of i; r_count := nat_of c; r_wide := flag w; r_slen := nat_of sl;
       r_offs := map str_to_Z (sep_on 44 offs); r_flags := nums 44 fl |}
  | _ => {| r_index := 0; r_count := 0; r_wide := false; r_slen := 0; r_offs := []; r_flags := [] |}
  end.
Definition parse_tile (it : list N) : ptile :=
  match split_on_fast 59 it [] with
  | k :: n :: rows => {| t_id := nat_of k; t_numrows := nat_of n; t_rows := map parse_row rows |}
  | _ => {| t_id := 0; t_numrows := 0; t_rows := [] |}
  end.

(* ---- printing ---- *)
Definition colon : list N := [58].
Definition show_ns (tag : list N) (ns : list N) : list N := tag ++ concat (map (fun n => colon ++ N_to_str n) ns).
Definition show_defect (d : defect) : list N :=
  match d with
  | DRef o r => show_ns [114;101;102] [o; r]
  | DHRef o r => show_ns [104;114;101;102] [o; r]
  | DDRef o r => show_ns [100;114;101;102] [o; r]
  | DHDRef o r => show_ns [104;100;114;101;102] [o; r]
  | DDupId o => show_ns [100;117;112;105;100] [o]
  | DAbove o => show_ns [97;98;111;118;101] [o]
  | DUnlisted i => show_ns [117;110;108;105;115;116;101;100] [i]
  | DNoFile c => show_ns [110;111;102;105;108;101] [c]
  | DNoRoot c => show_ns [110;111;114;111;111;116] [c]
  | DExtComp c x => show_ns [101;120;116;99;111;109;112] [c; x]
  | DExtObj c o => show_ns [101;120;116;111;98;106] [c; o]
  | DUuid c o => show_ns [117;117;105;100] [c; o]
  | DDupData x => show_ns [100;117;112;100;97;116;97] [x]
  | DNoData x => show_ns [110;111;100;97;116;97] [x]
  | TRows t n => show_ns [114;111;119;115] [t; n]
  | TCover t => show_ns [99;111;118;101;114] [t]
  | TTileBig t k => show_ns [116;105;108;101;98;105;103] [t; k]
  | TNumRows t k => show_ns [110;117;109;114;111;119;115] [t; k]
  | TRowIndex t k => show_ns [114;111;119;105;110;100;101;120] [t; k]
  | TOffsLen t k i => show_ns [111;102;102;115;108;101;110] [t; k; i]
  | TOffNeg t k i => show_ns [111;102;102;110;101;103] [t; k; i]
  | TCount t k i => show_ns [99;111;117;110;116] [t; k; i]
  | TFlagsLen t k i => show_ns [102;108;97;103;115;108;101;110] [t; k; i]
  | TRecords t k i => show_ns [114;101;99;111;114;100;115] [t; k; i]
  end.
Definition show_defects (ds : list defect) : list N :=
  match ds with [] => [111;107] | _ => join [59] (map show_defect ds) end.

Definition comma : list N := [44].
Definition parse_cell (s : list N) : option (list N) :=
  match s with [45] => None | [101] => Some [] | _ => Some (bytes_of_hex s) end.
Fixpoint parse_ops (s : list N) : list idop :=
  match s with [] => [] | c :: r => (if c =? 99 then OpCreate else OpNewId) :: parse_ops r end.

Definition handle (line : list N) : list N :=
  match fields_fast line with
  | [[112;107;103]; last; d; dd; ms; cs; ds; os] =>
    show_defects (validate_pkg (parse_pairs d) (parse_pairs dd)
      {| p_last := nat_of last; p_members := map parse_member (sep_on 44 ms);
         p_components := map parse_component (sep_on 44 cs); p_datas := map parse_data (sep_on 44 ds);
         p_objects := map parse_obj (sep_on 44 os); p_tables := [] |})
  | [[116;98;108]; i; nr; nc; tiles] =>
    show_defects (validate_tbl {| tb_id := nat_of i; tb_nrows := nat_of nr; tb_ncols := nat_of nc;
                                  tb_tiles := map parse_tile (sep_on 124 tiles) |})
  | [[116;98;108]; i; nr; nc] =>
    show_defects (validate_tbl {| tb_id := nat_of i; tb_nrows := nat_of nr; tb_ncols := nat_of nc; tb_tiles := [] |})
  | [[97;98;115]; cs] =>
    let cells := map parse_cell (sep_on 44 cs) in
    match pack_row cells with
    | Ok (offs, st) =>
      let r := abs_row {| tile_row_index := 0; r_offsets := offs; r_storage := st; cell_count := count_some cells |} in
      join comma (map Z_to_str (r_offs r)) ++ [c_tab] ++ join comma (map N_to_str (r_flags r)) ++ [c_tab] ++
      N_to_str (r_slen r) ++ [c_tab] ++ N_to_str (r_count r)
    | Err e => show_err e
    end
  | [[116;115;122]; n] =>
    join comma (map (fun t => N_to_str (N.of_nat (length t))) (tiles_of (repeat [] (N.to_nat (nat_of n)))))
  | [[105;100;115]; ks; last; ops] =>
    match (do s0 <- store_init (nums 44 ks) (nat_of last) ; run_ops (parse_ops ops) s0) with
    | Ok (is, s) => join comma (map N_to_str is) ++ [c_tab] ++ N_to_str (s_max s) ++ [c_tab] ++ N_to_str (s_last s) ++
                    [c_tab] ++ N_to_str (N.of_nat (length (s_keys s)))
    | Err e => show_err e
    end
  | _ => [63]
  end.
