(* Line protocol entry for the C18 tokenizer model.  One request per line, fields
   tab separated; text is a comma separated list of decimal code points (may be empty):
     tok <cps>   Tokenizer(text).items of the repaired tree
     pin <cps>   the same on the pinned tree (list.pop() on an empty stack)
     rex <cps>   STRING_REGEXES[text[0]].match(text): match length, or "-"
     sn  <cps>   SN_RE.match(text): 1 / 0
     flt <cps>   float(text) succeeds: 1 / 0
     ws  <cp>    chr(cp).isspace(): 1 / 0
   tok/pin answer  "OK " followed by the tokens joined by "|",
   a token being  <value code points joined by ".">:<TYPE>:<SUBTYPE> ;
   or "!TokenizerError", "!CRASH:index" (foreign IndexError), "!OUTOFFUEL". *)
From Coq Require Import NArith List Bool.
From NP Require Import Model.PyBase Model.Tokenizer.
Import ListNotations.
Open Scope N_scope.

Definition parse_cps (t : list N) : list N :=
  match t with [] => [] | _ => map digits_to_N (split_on 44 t []) end.

Definition ty_name (t : ty) : list N :=
  match t with
  | OPERAND => [79;80;69;82;65;78;68]
  | FUNC => [70;85;78;67]
  | ARRAY => [65;82;82;65;89]
  | PAREN => [80;65;82;69;78]
  | SEP => [83;69;80]
  | OP_PRE => [79;80;69;82;65;84;79;82;45;80;82;69;70;73;88]
  | OP_IN => [79;80;69;82;65;84;79;82;45;73;78;70;73;88]
  | OP_POST => [79;80;69;82;65;84;79;82;45;80;79;83;84;70;73;88]
  end.
Definition sub_name (s : sub) : list N :=
  match s with
  | S_TEXT => [84;69;88;84]
  | S_NUMBER => [78;85;77;66;69;82]
  | S_LOGICAL => [76;79;71;73;67;65;76]
  | S_ERROR => [69;82;82;79;82]
  | S_RANGE => [82;65;78;71;69]
  | S_OPEN => [79;80;69;78]
  | S_CLOSE => [67;76;79;83;69]
  | S_ARG => [65;82;71]
  | S_ROW => [82;79;87]
  | S_NONE => []
  end.

Definition show_token (t : token) : list N :=
  join [46] (map N_to_str (tval t)) ++ [58] ++ ty_name (tty t) ++ [58] ++ sub_name (tsub t).
Definition show_res (r : result (list token)) : list N :=
  match r with
  | Ok ts => [79;75;32] ++ join [124] (map show_token ts)
  | Err e => show_err e
  end.
Definition show_bool (b : bool) : list N := if b then [49] else [48].
Definition show_opt (o : option N) : list N := match o with Some m => N_to_str m | None => [45] end.

Definition handle (line : list N) : list N :=
  match fields line with
  | [[116;111;107]; t] => show_res (tokenize (parse_cps t))
  | [[112;105;110]; t] => show_res (tokenize_pinned (parse_cps t))
  | [[114;101;120]; t] => show_opt (match_quoted (parse_cps t))
  | [[115;110]; t] => show_bool (sn_match (parse_cps t))
  | [[102;108;116]; t] => show_bool (py_float_ok (parse_cps t))
  | [[119;115]; t] => show_bool (is_space (digits_to_N t))
  | _ => [63]
  end.
