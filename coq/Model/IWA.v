(* IWA: executable mirror of numbers_parser.iwafile
     IWACompressedChunk._decompress_all / to_buffer     (chunk container)
     is_iwa_file                                        (sniffing)
     get_archive_info_and_remainder
     IWAArchiveSegment.from_buffer / to_buffer
     IWACompressedChunk.from_buffer, IWAFile.from_buffer / to_buffer
   and of iwork.IWork._store_blob (the consumer of the three above).
   Bytes in, bytes out.  Python raising behaviour is explicit: struct.unpack on a
   short header -> StructError, list[0] on an empty list -> IndexError,
   _DecodeVarint32 past the end -> IndexError, ...
   External libraries are Section variables:
     snappy        compress / uncompress (None = uncompress raises)
     protobuf      dec_header  = ArchiveInfo.FromString          (may raise anything)
                   dec_payload = ID_NAME_MAP[type].FromString    (may raise anything)
                   known_type  = type in ID_NAME_MAP
   The C05 instance at the end of the file makes the header concrete (a Wire
   message) and message contents opaque byte strings. *)
From Coq Require Import NArith List Bool Lia.
From NP Require Import Model.PyBase Model.Varint Model.Wire.
Import ListNotations.
Open Scope N_scope.

(* struct.unpack("<I", bytes(header[1:]) + b"\x00")[0] *)
Definition unpack_len3 (header : bytes) : result N :=
  let t := tl header ++ [0] in
  if Nat.eqb (length t) 4 then Ok (le_val t) else Err StructError.

(* struct.pack("<I", n) *)
Definition pack_I (n : N) : result bytes :=
  if n <? 4294967296 then Ok (le_bytes 4 n) else Err StructError.

(* b"\x00" + struct.pack("<I", len(payload))[:3] + payload *)
Definition frame (payload : bytes) : result bytes :=
  do p <- pack_I (lenN payload) ; Ok (0 :: firstn 3 p ++ payload).

Fixpoint frames (payloads : list bytes) : result bytes :=
  match payloads with
  | [] => Ok []
  | p :: r => do a <- frame p ; do b <- frames r ; Ok (a ++ b)
  end.

(* while uncompressed: payloads.append(uncompressed[:65536]); uncompressed = uncompressed[65536:] *)
Fixpoint split_chunks (fuel : nat) (d : bytes) : list bytes :=
  match d with
  | [] => []
  | _ :: _ =>
    match fuel with
    | O => []
    | S f => takeN 65536 d :: split_chunks f (dropN 65536 d)
    end
  end.

(* is_iwa_file; [fixed] = the repaired code (fixes/C17-is-iwa-file-short-header.patch):
   a header shorter than four bytes means "not an IWA file" *)
Fixpoint is_iwa_f (fixed : bool) (fuel : nat) (data : bytes) (acc : N) : result (option N) :=
  match data with
  | [] => Ok (Some acc)
  | first :: _ =>
    match fuel with
    | O => Err OutOfFuel
    | S f =>
      let header := firstn 4 data in
      if fixed && Nat.ltb (length header) 4 then Ok None else
      if negb (first =? 0) then Ok None else
      do seg <- unpack_len3 header ;
      is_iwa_f fixed f (dropN (4 + seg) data) (acc + seg + 4)
    end
  end.
Definition is_iwa_file (fixed : bool) (data : bytes) : result bool :=
  do r <- is_iwa_f fixed (length data) data 0 ;
  Ok (match r with Some l => l =? lenN data | None => false end).

(* strict splitting of a framed file, used to state the container rules *)
Fixpoint split_frames_f (fuel : nat) (data : bytes) : option (list (bytes * bytes)) :=
  match data with
  | [] => Some []
  | _ :: _ =>
    match fuel with
    | O => None
    | S f =>
      let header := firstn 4 data in
      if Nat.eqb (length header) 4 then
        match take_exact (le_val (tl header ++ [0])) (dropN 4 data) with
        | None => None
        | Some (p, rest) =>
          match split_frames_f f rest with Some l => Some ((header, p) :: l) | None => None end
        end
      else None
    end
  end.
Definition split_frames (data : bytes) : option (list (bytes * bytes)) := split_frames_f (length data) data.

Record minfo : Type := { mi_type : N ; mi_length : N ; mi_base : N }.
Record hview : Type := { hv_empty : bool ; hv_merge : bool ; hv_ident : N ; hv_infos : list minfo }.

Definition is_nil {A} (l : list A) : bool := match l with [] => true | _ => false end.

Section IWA.
  Variable uncompress : bytes -> option bytes.
  Variable compress : bytes -> bytes.
  Context {Hd Ob : Type}.
  Variable dec_header : bytes -> result Hd.
  Variable view : Hd -> hview.
  Variable known_type : N -> bool.
  Variable dec_payload : N -> bytes -> result Ob.

  (* ---------- IWACompressedChunk._decompress_all (joined) ---------- *)
  Fixpoint decompress_all_f (fuel : nat) (data : bytes) : result (list bytes) :=
    match data with
    | [] => Ok []
    | first :: _ =>
      match fuel with
      | O => Err OutOfFuel
      | S f =>
        let header := firstn 4 data in
        if negb (first =? 0) then Err ValueError else
        do len <- unpack_len3 header ;
        let chunk := takeN len (dropN 4 data) in
        let rest := dropN (4 + len) data in
        do tl <- decompress_all_f f rest ;
        Ok ((match uncompress chunk with Some u => u | None => chunk end) :: tl)
      end
    end.
  Definition decompress_all (data : bytes) : result bytes :=
    do ps <- decompress_all_f (length data) data ; Ok (concat ps).

  (* ---------- IWACompressedChunk.to_buffer on the joined archive bytes ---------- *)
  Definition to_chunks (d : bytes) : result bytes :=
    frames (map compress (split_chunks (length d) d)).

  (* the container rules for one frame: marker byte, 3-byte length = payload
     length, at most 64 KiB of source data *)
  Definition chunk_ok (fr : bytes * bytes) : bool :=
    match fst fr with
    | [m; a; b; c] =>
      (m =? 0) && (le_val [a; b; c] =? lenN (snd fr)) &&
      match uncompress (snd fr) with Some src => lenN src <=? 65536 | None => false end
    | _ => false
    end.

  (* ---------- get_archive_info_and_remainder ---------- *)
  Definition get_archive_info_and_remainder (buf : bytes) : result (Hd * bytes) :=
    do '(msg_len, r) <- decode_varint32 buf ;
    do h <- dec_header (takeN msg_len r) ;
    Ok (h, dropN msg_len r).

  (* the class chosen for one message_info *)
  Definition klass_of (all : list minfo) (merge have : bool) (mi : minfo) : result N :=
    if (mi_type mi =? 0) && merge && have then
      match nthN (mi_base mi) all with
      | None => Err IndexError
      | Some base => if known_type (mi_type base) then Ok (mi_type base) else Err NotImplementedErr
      end
    else if known_type (mi_type mi) then Ok (mi_type mi) else Err NotImplementedErr.

  Fixpoint seg_loop (infos all : list minfo) (merge : bool) (payload : bytes) (n : N) (acc : list Ob)
    : result (list Ob * N) :=
    match infos with
    | [] => Ok (rev acc, n)
    | mi :: rest =>
      do t <- klass_of all merge (negb (is_nil acc)) mi ;
      do o <- match dec_payload t (takeN (mi_length mi) (dropN n payload)) with
              | Ok o => Ok o
              | Err OutOfFuel => Err OutOfFuel
              | Err _ => Err ValueError
              end ;
      seg_loop rest all merge payload (n + mi_length mi) (o :: acc)
    end.

  (* ---------- IWAArchiveSegment.from_buffer ---------- *)
  Definition segment_from_buffer (buf : bytes) : result ((Hd * list Ob) * bytes) :=
    do '(h, payload) <- get_archive_info_and_remainder buf ;
    let v := view h in
    if hv_empty v then Err ValueError else
    do '(objs, n) <- seg_loop (hv_infos v) (hv_infos v) (hv_merge v) payload 0 [] ;
    Ok ((h, objs), dropN n payload).

  (* the `while data:` loop of IWACompressedChunk.from_buffer *)
  Fixpoint segments_f (fuel : nat) (data : bytes) : result (list (Hd * list Ob)) :=
    match data with
    | [] => Ok []
    | _ :: _ =>
      match fuel with
      | O => Err OutOfFuel
      | S f =>
        do '(seg, rest) <- segment_from_buffer data ;
        do tl <- segments_f f rest ;
        Ok (seg :: tl)
      end
    end.
  Definition segments (raw : bytes) : result (list (Hd * list Ob)) := segments_f (length raw) raw.

  Definition chunk_from_buffer (data : bytes) : result (list (Hd * list Ob)) :=
    do raw <- decompress_all data ; segments raw.

  (* ---------- IWAFile.from_buffer: the loop runs at most once because the chunk
     constructor returns (chunk, None); a file name turns every exception into ValueError *)
  Definition file_from_buffer (data : bytes) (named : bool) : result (list (list (Hd * list Ob))) :=
    match data with
    | [] => Ok []
    | _ :: _ =>
      match chunk_from_buffer data with
      | Ok c => Ok [c]
      | Err OutOfFuel => Err OutOfFuel
      | Err e => Err (if named then ValueError else e)
      end
    end.

  (* ---------- iwork.IWork._store_blob ----------
     result: Some ids = stored as an IWA archive whose objects were registered
     under these identifiers, None = stored as an opaque blob.
     [fix_iwa]   fixes/C17-is-iwa-file-short-header.patch
     [fix_store] fixes/C17-store-blob-empty-archive.patch (the object loop is inside the try) *)
  Fixpoint store_objects (archives : list (Hd * list Ob)) : result (list N) :=
    match archives with
    | [] => Ok []
    | (h, objs) :: r =>
      match objs with
      | [] => Err IndexError                      (* archive.objects[0] *)
      | _ :: _ => do ids <- store_objects r ; Ok (hv_ident (view h) :: ids)
      end
    end.

  Definition store_blob (fix_iwa fix_store ends_iwa : bool) (blob : bytes) : result (option (list N)) :=
    if ends_iwa then
      do isiwa <- is_iwa_file fix_iwa blob ;
      if isiwa then
        match file_from_buffer blob true with
        | Err OutOfFuel => Err OutOfFuel
        | Err _ => Err FileFormatError
        | Ok chunks =>
          let body := match chunks with
                      | [] => Err IndexError      (* iwaf.chunks[0] *)
                      | c :: _ => store_objects c
                      end in
          match body with
          | Ok ids => Ok (Some ids)
          | Err OutOfFuel => Err OutOfFuel
          | Err e => Err (if fix_store then FileFormatError else e)
          end
        end
      else Ok None
    else Ok None.
End IWA.

(* =====================================================================
   C05 instance: the header is a Wire message, contents are opaque bytes
   ===================================================================== *)
Definition dflt (o : option N) : N := match o with Some n => n | None => 0 end.
Definition u32 (n : N) : N := n mod 4294967296.

Definition minfo_of_sub (sub : wmsg) : minfo :=
  {| mi_type := u32 (dflt (last_varint 1 sub)) ;
     mi_length := u32 (dflt (last_varint 3 sub)) ;
     mi_base := u32 (dflt (last_varint 7 sub)) |}.

Definition minfo_of_bytes (sb : bytes) : minfo :=
  match parse_wire sb with
  | Some sub => minfo_of_sub sub
  | None => {| mi_type := 0 ; mi_length := 0 ; mi_base := 0 |}
  end.

Definition parses (sb : bytes) : bool := match parse_wire sb with Some _ => true | None => false end.

(* ArchiveInfo.FromString on the wire level: the message and every message_infos
   entry (field 2, length-delimited) must be well-formed wire data *)
Definition wire_dec_header (b : bytes) : result wmsg :=
  match parse_wire b with
  | None => Err DecodeError
  | Some m => if forallb parses (len_fields 2 m) then Ok m else Err DecodeError
  end.

(* repr(archive_info) is empty iff no schema field is present: identifier (1, varint),
   message_infos (2, length-delimited), should_merge (3, varint) *)
Definition wire_view (m : wmsg) : hview :=
  {| hv_empty := negb (has_varint 1 m || negb (is_nil (len_fields 2 m)) || has_varint 3 m) ;
     hv_merge := negb (dflt (last_varint 3 m) =? 0) ;
     hv_ident := dflt (last_varint 1 m) ;
     hv_infos := map minfo_of_bytes (len_fields 2 m) |}.

(* message_info.length = object_length (only when it differs) *)
Definition set_f3_field (l : N) (f : wfield) : wfield :=
  match f with
  | (k, WVarint _) => if k =? 3 then (3, WVarint l) else f
  | _ => f
  end.
Definition set_f3 (l : N) (sub : wmsg) : wmsg :=
  if has_varint 3 sub then map (set_f3_field l) sub else sub ++ [(3, WVarint l)].
Definition set_len_bytes (l : N) (sb : bytes) : bytes :=
  match parse_wire sb with
  | None => sb
  | Some sub => if mi_length (minfo_of_sub sub) =? l then sb else ser_wire (set_f3 l sub)
  end.
(* a message_infos entry of the header: field 2, length-delimited *)
Definition is_info (f : wfield) : option bytes :=
  match f with
  | (k, WLen sb) => if k =? 2 then Some sb else None
  | _ => None
  end.
(* zip(self.objects, self.header.message_infos) *)
Fixpoint set_lengths (m : wmsg) (ls : list N) : wmsg :=
  match m with
  | [] => []
  | f :: r =>
    match is_info f, ls with
    | Some sb, l :: ls' => (2, WLen (set_len_bytes l sb)) :: set_lengths r ls'
    | Some _, [] => m
    | None, _ => f :: set_lengths r ls
    end
  end.

(* IWAArchiveSegment.to_buffer *)
Definition segment_to_buffer (seg : wmsg * list bytes) : bytes :=
  let h' := set_lengths (fst seg) (map lenN (snd seg)) in
  let hb := ser_wire h' in
  encode_varint (lenN hb) ++ hb ++ concat (snd seg).

Section C05.
  Variable uncompress : bytes -> option bytes.
  Variable compress : bytes -> bytes.
  Variable known_type : N -> bool.

  Definition opaque_payload (t : N) (b : bytes) : result bytes := Ok b.

  Definition c05_segment_from_buffer := segment_from_buffer wire_dec_header wire_view known_type opaque_payload.
  Definition c05_segments := segments wire_dec_header wire_view known_type opaque_payload.
  Definition c05_chunk_from_buffer := chunk_from_buffer uncompress wire_dec_header wire_view known_type opaque_payload.
  Definition c05_file_from_buffer := file_from_buffer uncompress wire_dec_header wire_view known_type opaque_payload.

  (* IWACompressedChunk.to_buffer and IWAFile.to_buffer *)
  Definition chunk_to_buffer (archives : list (wmsg * list bytes)) : result bytes :=
    to_chunks compress (concat (map segment_to_buffer archives)).
  Fixpoint file_to_buffer (chunks : list (list (wmsg * list bytes))) : result bytes :=
    match chunks with
    | [] => Ok []
    | c :: r => do a <- chunk_to_buffer c ; do b <- file_to_buffer r ; Ok (a ++ b)
    end.
End C05.

(* ---------- constants of the source that the model mirrors as literals; tied to the source by
   Props/C05.gen_iwa_constants (tools/gen_c05.py reads them from the protobuf descriptors and the AST):
   (field number, protobuf type) of ArchiveInfo.identifier / message_infos / should_merge and
   MessageInfo.type / length / base_message_index; the integer literals of to_buffer (3 length bytes,
   65536 bytes per chunk) and of _decompress_all / is_iwa_file (marker 0, header[1:], 4 header bytes) ---------- *)
Definition modelled_fields : list (N * N) := [(1, 4); (2, 11); (3, 8); (1, 13); (3, 13); (7, 13)].
Definition modelled_ints_to_buffer : list N := [3; 65536].
Definition modelled_ints_unframe : list N := [0; 1; 4].
