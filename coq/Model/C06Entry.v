(* Line protocol of the C06 models (tab separated fields, one result line per request):
     dl    <p|r> <k:hex,k:hex,..> <keys csv>
              -> per key: value hex | e (empty value) | ! (KeyError), comma separated ; TAB next_key
              (add_table_pinned | add_table, then lookup_value per key)
     rm    <p|r> <nrows> <ncols> <tile_size> <hdr buckets: i,i|i,i> <tiles: tileid:row;row|..>   row = idx/wide/offsets-hex/storage-hex
              -> rows separated by ';', cells by ',' (- | e | hex)    | !ValueError (odd offsets length)
              (row_storage_map[_pinned] + storage_buffers + storage_buffer for every row < nrows, col < ncols)
     split <wide 0/1> <ncols> <offsets raw hex> <storage hex> -> cells csv                       (array("h") + split_row)
     store <namehex:id,id,..|namehex:..>    -> id=namehex,.. in dict order ; TAB file names in dict order
              (ObjectStore filled member by member)
   An absent trailing field is the empty string. *)
From Coq Require Import ZArith NArith List Bool.
From NP Require Import Model.PyBase Model.Assoc Model.DataList Model.TileCodec Model.RowMap Model.ObjStore.
Import ListNotations.
Open Scope N_scope.

Definition comma : list N := [44].
Definition csv (s : list N) : list (list N) := match s with [] => [] | _ => split_on_fast 44 s [] end.
Definition bars (s : list N) : list (list N) := match s with [] => [] | _ => split_on_fast 124 s [] end.
Definition semis (s : list N) : list (list N) := match s with [] => [] | _ => split_on_fast 59 s [] end.
Definition show_cell (c : option (list N)) : list N :=
  match c with Some b => match b with [] => [101] | _ => hex_of_bytes b end | None => [45] end.
Definition show_val (b : list N) : list N := match b with [] => [101] | _ => hex_of_bytes b end.
Definition is_p (s : list N) : bool := match s with [112] => true | _ => false end.
Definition is_1 (s : list N) : bool := match s with [49] => true | _ => false end.
Definition to_N (s : list N) : N := digits_to_N s.

Definition parse_entry (s : list N) : Z * list N :=
  match split_on_fast 58 s [] with
  | [k; v] => (str_to_Z k, bytes_of_hex v)
  | [k] => (str_to_Z k, [])
  | _ => (0%Z, [])
  end.

Definition do_dl (pinned : bool) (es ks : list N) : list N :=
  let entries := map parse_entry (csv es) in
  let d := if pinned then add_table_pinned (list N) entries else add_table (list N) entries in
  join comma (map (fun k => match lookup_value (list N) d (str_to_Z k) with Ok v => show_val v | Err _ => [33] end) (csv ks))
  ++ [c_tab] ++ Z_to_str (next_key d).

Definition parse_srow (s : list N) : result srow :=
  match split_on_fast 47 s [] with
  | [i; w; o; st] => do offs <- h_decode (bytes_of_hex o) ;
                     Ok {| s_index := to_N i; s_wide := is_1 w; s_offsets := offs; s_storage := bytes_of_hex st |}
  | [i; w; o] => do offs <- h_decode (bytes_of_hex o) ;
                 Ok {| s_index := to_N i; s_wide := is_1 w; s_offsets := offs; s_storage := [] |}
  | _ => Err ValueError
  end.
Fixpoint all_ok {A} (l : list (result A)) : result (list A) :=
  match l with [] => Ok [] | r :: rest => do a <- r ; do b <- all_ok rest ; Ok (a :: b) end.
Definition parse_tile (s : list N) : result tile :=
  match split_on_fast 58 s [] with
  | [i; rows] => do rs <- all_ok (map parse_srow (semis rows)) ; Ok {| t_id := to_N i; t_rows := rs |}
  | [i] => Ok {| t_id := to_N i; t_rows := [] |}
  | _ => Err ValueError
  end.

Definition do_rm (pinned : bool) (nr nc ts hs tls : list N) : list N :=
  match all_ok (map parse_tile (bars tls)) with
  | Err e => show_err e
  | Ok tiles =>
    let t := {| nrows := to_N nr; ncols := N.to_nat (to_N nc); tile_size := to_N ts;
                hdrs := map (fun b => map to_N (csv b)) (bars hs); tiles := tiles |} in
    let m := if pinned then row_storage_map_pinned t else row_storage_map t in
    let bufs := storage_buffers t in
    let nr := nrows t in
    let show_row (r : nat) :=
        join comma (map (fun c => match storage_buffer_with m bufs nr (N.of_nat r) c with Ok x => show_cell x | Err e => show_err e end)
                        (seq 0 (ncols t))) in
    join [59] (map show_row (seq 0 (N.to_nat (nrows t))))
  end.

Definition do_split (w nc offs st : list N) : list N :=
  match h_decode (bytes_of_hex offs) with
  | Err e => show_err e
  | Ok o => join comma (map show_cell (split_row (is_1 w) (bytes_of_hex st) o (N.to_nat (to_N nc))))
  end.

Definition parse_member (s : list N) : member unit unit :=
  match split_on_fast 58 s [] with
  | [n; ids] => {| m_name := n; m_blob := tt; m_archives := map (fun i => (to_N i, tt)) (csv ids) |}
  | [n] => {| m_name := n; m_blob := tt; m_archives := [] |}
  | _ => {| m_name := []; m_blob := tt; m_archives := [] |}
  end.
Definition do_store (s : list N) : list N :=
  let ms := map parse_member (bars s) in
  let o2f := object_to_filename unit unit ms in
  let ids := first_keys N.eqb [] (object_items unit unit ms) in
  join comma (map (fun i => N_to_str i ++ [61] ++ match aget N.eqb i o2f with Some n => n | None => [63] end) ids)
  ++ [c_tab] ++ join comma (first_keys str_eqb [] (file_items unit unit ms)).

Definition handle (line : list N) : list N :=
  match fields_fast line with
  | [[100;108]; p; es; ks] => do_dl (is_p p) es ks
  | [[100;108]; p; es] => do_dl (is_p p) es []
  | [[114;109]; p; nr; nc; ts; hs; tls] => do_rm (is_p p) nr nc ts hs tls
  | [[114;109]; p; nr; nc; ts; hs] => do_rm (is_p p) nr nc ts hs []
  | [[115;112;108;105;116]; w; nc; offs; st] => do_split w nc offs st
  | [[115;112;108;105;116]; w; nc; offs] => do_split w nc offs []
  | [[115;116;111;114;101]; s] => do_store s
  | _ => [63]
  end.
