(* A1: executable mirror of numbers_parser.xrefs
     xl_col_to_name / xl_rowcol_to_cell / xl_cell_to_rowcol / xl_col_to_offset / xl_range
   and of tokenizer.parse_numbers_range.col_to_index.
   Integers are Z (negatives exist), strings are lists of code points. *)
From Coq Require Import ZArith NArith List Bool Lia.
From NP Require Import Model.PyBase.
Import ListNotations.
Open Scope N_scope.

(* ---------- str(int) for n >= 0: repeated division by ten ---------- *)
Fixpoint dec_rev (fuel : nat) (n : N) : list N :=   (* least significant first *)
  match fuel with
  | O => []
  | S f => if n =? 0 then [] else (48 + n mod 10) :: dec_rev f (n / 10)
  end.
Definition bits_fuel (n : N) : nat := match n with N0 => O | Npos p => Pos.size_nat p end.
Definition py_str_N (n : N) : str := if n =? 0 then [48] else rev (dec_rev (bits_fuel n) n).
(* int(s) on ASCII digits *)
Definition py_int (s : str) : N := digits_to_N s.

(* ---------- xl_col_to_name ---------- *)
(* the `while col:` loop; letters accumulate right to left.
   `int((col - 1) / 26)` is a binary64 division in the code; the model uses the
   exact quotient and C10.float_division_exact shows the two agree on the
   whole column domain. *)
Fixpoint name_rev (fuel : nat) (n : N) : list N :=     (* last letter first *)
  match fuel with
  | O => []
  | S f =>
    if n =? 0 then [] else
    let m := n mod 26 in
    let r := if m =? 0 then 26 else m in
    (64 + r) :: name_rev f ((n - 1) / 26)
  end.
Definition col_letters (c : N) : str := rev (name_rev (bits_fuel (c + 1)) (c + 1)).

Definition dollar (b : bool) : str := if b then [c_dollar] else [].

Definition xl_col_to_name (col : Z) (col_abs : bool) : result str :=
  if (col <? 0)%Z then Err IndexError
  else Ok (dollar col_abs ++ col_letters (Z.to_N col)).

Definition xl_rowcol_to_cell (row col : Z) (row_abs col_abs : bool) : result str :=
  if (row <? 0)%Z then Err IndexError else
  if (col <? 0)%Z then Err IndexError else
  do cs <- xl_col_to_name col col_abs ;
  Ok (cs ++ dollar row_abs ++ py_str_N (Z.to_N (row + 1))).

(* ---------- decoders ---------- *)
(* sum((ord(ch) - 64) * 26**expn for expn, ch in enumerate(reversed(s))) *)
Fixpoint name_val_rev (r : list N) : Z :=
  match r with [] => 0%Z | c :: r' => (Z.of_N c - 64 + 26 * name_val_rev r')%Z end.
Definition name_to_col (s : str) : Z := (name_val_rev (rev s) - 1)%Z.
(* tokenizer.col_to_index is the same loop written a second time *)
Definition col_to_index (s : str) : Z :=
  (fold_right (fun c acc => Z.of_N c - 64 + 26 * acc) 0 (rev s) - 1)%Z.

Definition opt_dollar (s : str) : bool * str :=
  match s with c :: r => if c =? c_dollar then (true, r) else (false, s) | [] => (false, s) end.
Fixpoint take_upper (k : nat) (s : str) : str * str :=
  match k, s with
  | S k', c :: r => if is_upper c then let '(a, b) := take_upper k' r in (c :: a, b) else ([], s)
  | _, _ => ([], s)
  end.
Fixpoint take_digits (s : str) : str * str :=
  match s with
  | c :: r => if is_digit c then let '(a, b) := take_digits r in (c :: a, b) else ([], s)
  | [] => ([], [])
  end.

(* re.match(r"(\$?)([A-Z]{1,3})(\$?)(\d+)", s): groups 1..4 and the rest *)
Definition match_cell (s : str) : option (bool * str * bool * str * str) :=
  let '(a1, s1) := opt_dollar s in
  let '(ls, s2) := take_upper 3 s1 in
  match ls with
  | [] => None
  | _ =>
    let '(a2, s3) := opt_dollar s2 in
    let '(ds, s4) := take_digits s3 in
    match ds with [] => None | _ => Some (a1, ls, a2, ds, s4) end
  end.

Definition xl_cell_to_rowcol (s : str) : result (Z * Z) :=
  match s with
  | [] => Ok (0, 0)%Z
  | _ =>
    match match_cell s with
    | None => Err IndexError
    | Some (_, ls, _, ds, _) => Ok (Z.of_N (py_int ds) - 1, name_to_col ls)%Z
    end
  end.

Definition xl_col_to_offset (s : str) : result Z :=
  match s with
  | [] => Ok 0%Z
  | _ =>
    let '(_, s1) := opt_dollar s in
    let '(ls, _) := take_upper 3 s1 in
    match ls with [] => Err IndexError | _ => Ok (name_to_col ls) end
  end.

Definition xl_range (r1 c1 r2 c2 : Z) : result str :=
  do a <- xl_rowcol_to_cell r1 c1 false false ;
  do b <- xl_rowcol_to_cell r2 c2 false false ;
  if str_eqb a b then Ok a else Ok (a ++ [c_colon] ++ b).

(* shortlex order on names: shorter first, then lexicographic *)
Fixpoint lex_lt (a b : str) : bool :=
  match a, b with
  | x :: a', y :: b' => (x <? y) || ((x =? y) && lex_lt a' b')
  | _, _ => false
  end.
Definition shortlex_lt (a b : str) : bool :=
  (Nat.ltb (length a) (length b)) || (Nat.eqb (length a) (length b) && lex_lt a b).

(* the regex sources the two scanners mirror: (\$?)([A-Z]{1,3})(\$?)(\d+) and (\$?)([A-Z]{1,3}) *)
Definition modelled_range_parts : list N :=
  [40;92;36;63;41;40;91;65;45;90;93;123;49;44;51;125;41;40;92;36;63;41;40;92;100;43;41].
Definition modelled_col_parts : list N :=
  [40;92;36;63;41;40;91;65;45;90;93;123;49;44;51;125;41].
