(* RowMap: executable mirror of the row -> storage mapping of the reader
     _NumbersModel.row_storage_map   (which storage buffer belongs to which row)
     _NumbersModel.storage_buffers   (every rowInfo of every tile, in order, split into cells)
     _NumbersModel.storage_buffer    (row, col -> record bytes | None)
   and of array("h", cell_offsets).tolist().
   row_storage_map is the REPAIRED function (fixes/C06-2-row-map-declared-index.patch): a stored row sits at
   tileid * tile_size + tile_row_index.  row_storage_map_pinned is the pinned one: it numbered the records of
   rowHeaders.buckets and never read tile_row_index. *)
From Coq Require Import ZArith NArith List Bool.
From NP Require Import Model.PyBase Model.Assoc Model.TileCodec.
Import ListNotations.
Open Scope N_scope.

(* array("h", b).tolist(): little-endian signed 16-bit; ValueError when len(b) is odd *)
Fixpoint h_decode (b : list N) : result (list Z) :=
  match b with
  | [] => Ok []
  | [_] => Err ValueError
  | lo :: hi :: r =>
    do rest <- h_decode r ;
    let u := lo + 256 * hi in
    Ok ((if u <? 32768 then Z.of_N u else (Z.of_N u - 65536)%Z) :: rest)
  end.

Record srow := { s_index : N;            (* TileRowInfo.tile_row_index *)
                 s_wide : bool;          (* has_wide_offsets *)
                 s_offsets : list Z;     (* cell_offsets, decoded *)
                 s_storage : list N }.   (* cell_storage_buffer *)
Record tile := { t_id : N; t_rows : list srow }.           (* TileStorage.Tile.tileid, Tile.rowInfos *)
Record table := { nrows : N; ncols : nat;
                  tile_size : N;                           (* TileStorage.tile_size, 0 when absent *)
                  hdrs : list (list N);                    (* rowHeaders.buckets -> Header.index, in order *)
                  tiles : list tile }.

Definition DEFAULT_TILE_SIZE : N := 256.
Definition eff_tile_size (t : table) : N := if tile_size t =? 0 then DEFAULT_TILE_SIZE else tile_size t.
Definition declared (t : table) (tl : tile) (r : srow) : N := t_id tl * eff_tile_size t + s_index r.
Definition decode_srow (nc : nat) (r : srow) : cells := split_row (s_wide r) (s_storage r) (s_offsets r) nc.

(* every rowInfo of every tile, in file order, with the row index it declares *)
Definition stored_rows (t : table) : list (N * cells) :=
  concat (map (fun tl => map (fun r => (declared t tl r, decode_srow (ncols t) r)) (t_rows tl)) (tiles t)).
Definition storage_buffers (t : table) : list cells := map snd (stored_rows t).

(* idx = 0; for k in ks: m[k] = idx; idx += 1 *)
Fixpoint number_from (i : N) (ks : list N) : list (N * N) :=
  match ks with [] => [] | k :: r => (k, i) :: number_from (i + 1) r end.

Definition row_storage_map (t : table) : list (N * N) := of_items (number_from 0 (map fst (stored_rows t))).
Definition row_storage_map_pinned (t : table) : list (N * N) := of_items (number_from 0 (concat (hdrs t))).

(* the dict starts as {i: None for i in range(number_of_rows)}: a row outside it and never assigned is a KeyError *)
Definition storage_buffer_with (m : list (N * N)) (bufs : list cells) (nr : N) (row : N) (col : nat) : result (option (list N)) :=
  match aget N.eqb row m with
  | None => if row <? nr then Ok None else Err KeyError
  | Some idx =>
    match nth_error bufs (N.to_nat idx) with
    | None => Ok None                                    (* row_offset >= len(storage_buffers) *)
    | Some cs => match nth_error cs col with
                 | None => Ok None                       (* col >= len(storage_buffers[row_offset]) *)
                 | Some c => Ok c
                 end
    end
  end.
Definition storage_buffer (t : table) := storage_buffer_with (row_storage_map t) (storage_buffers t) (nrows t).
Definition storage_buffer_pinned (t : table) := storage_buffer_with (row_storage_map_pinned t) (storage_buffers t) (nrows t).

Definition with_hdrs (t : table) (h : list (list N)) : table :=
  {| nrows := nrows t; ncols := ncols t; tile_size := tile_size t; hdrs := h; tiles := tiles t |}.
Definition with_tiles (t : table) (ts : list tile) : table :=
  {| nrows := nrows t; ncols := ncols t; tile_size := tile_size t; hdrs := hdrs t; tiles := ts |}.

(* what a row/column position holds according to the storage records themselves *)
Definition cell_at (o : option cells) (col : nat) : option (list N) :=
  match o with Some cs => match nth_error cs col with Some c => c | None => None end | None => None end.
Definition blank (cs : cells) : bool := forallb (fun c => match c with None => true | Some _ => false end) cs.
