(* ObjStore: abstract mirror of how a document's members fill the ObjectStore
     IWork._read_objects_from_zipfile / _read_objects_from_package: for every member, in container order, _store_blob
     IWork._store_blob: for archive in iwaf.chunks[0].archives: handler.store_object(filename, identifier, objects[0]);
                        handler.store_file(filename, iwaf | blob)
     ObjectStore.store_object: _objects[identifier] = archive; _object_to_filename_map[identifier] = filename
     ObjectStore.store_file:   _file_store[filename] = blob
     ObjectStore.find_refs:    [k for k, v in _objects.items() if type(v).__name__ == ref_name]
   Dicts are association lists (Assoc.v); blobs and objects are opaque. *)
From Coq Require Import NArith List Bool.
From NP Require Import Model.PyBase Model.Assoc.
Import ListNotations.

Section Store.
  Variables B O : Type.
  Record member := { m_name : list N; m_blob : B; m_archives : list (N * O) }.

  Definition object_items (ms : list member) : list (N * O) := flat_map m_archives ms.
  Definition filename_items (ms : list member) : list (N * list N) :=
    flat_map (fun m => map (fun a => (fst a, m_name m)) (m_archives m)) ms.
  Definition file_items (ms : list member) : list (list N * B) := map (fun m => (m_name m, m_blob m)) ms.

  Definition objects (ms : list member) := of_items (object_items ms).
  Definition object_to_filename (ms : list member) := of_items (filename_items ms).
  Definition file_store (ms : list member) := of_items (file_items ms).

  Definition get_object ms (id : N) := aget N.eqb id (objects ms).
  Definition get_filename ms (id : N) := aget N.eqb id (object_to_filename ms).
  Definition get_file ms (name : list N) := aget str_eqb name (file_store ms).

  (* keys in dict order (first insertion), values as finally assigned *)
  Definition find_refs (is_type : O -> bool) (ms : list member) : list N :=
    filter (fun k => match get_object ms k with Some o => is_type o | None => false end)
           (first_keys N.eqb [] (object_items ms)).

  (* ObjectStore.__init__: max(self._objects.keys()) *)
  Definition max_id (ms : list member) : N := fold_left N.max (map fst (object_items ms)) 0%N.
End Store.
Arguments m_name {B O}. Arguments m_blob {B O}. Arguments m_archives {B O}.
