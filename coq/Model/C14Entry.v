(* Line protocol entry for the C14 models (DateFormat, Duration).  One request per line, tab separated.
   Text that may be non-ASCII travels as a comma separated list of decimal code points ("cps").
     dir <cps key> <y> <m> <d> <H> <M> <S> <us>   _decode_date_format_field      -> cps result TAB 1/0 (key known)
     fmt <cps format> <y> .. <us>                 _decode_date_format            -> cps result TAB #unsupported fields
     fmp <cps format> <y> .. <us>                 the pinned tree's scanner      -> same
     val <cps format>                             Formatting.__post_init__       -> 1 accepted / 0 TypeError
     sft <cps strftime format> <y> .. <us>        datetime.strftime              -> cps result
     cal <y> <m> <d>                              toordinal, weekday, tm_yday    -> three integers
     ord <n>                                      date.fromordinal               -> y m d
     dur <ms> <style> <largest> <smallest> <auto> Cell._duration_format          -> text
     aut <ms> <largest> <smallest>                _auto_units                    -> smallest TAB largest
     rdb <text>                                   digit runs of a displayed duration -> n,n,... *)
From Coq Require Import ZArith NArith List Bool.
From NP Require Import Model.PyBase Model.A1 Model.DateFormat Model.Duration.
Import ListNotations.
Open Scope N_scope.

Definition parse_cps (s : list N) : list N :=
  match s with [] => [] | _ => List.map digits_to_N (split_on 44 s []) end.
Definition show_cps (s : list N) : list N := join [44] (List.map py_str_N s).

Definition zf (s : list N) : Z := str_to_Z s.
Definition nf (s : list N) : N := digits_to_N s.

Definition mk (y m d hh mm ss us : list N) : dt := mkdt (zf y) (zf m) (zf d) (zf hh) (zf mm) (zf ss) (zf us).

Definition show_items (t : dt) (l : list item) : list N :=
  show_cps (render_items t l) ++ [c_tab] ++ py_str_N (N.of_nat (List.length (unsupported l))).

Definition handle (line : list N) : list N :=
  match fields line with
  | [[100;105;114]; k; y; m; d; hh; mm; ss; us] =>
      let f := parse_cps k in
      show_cps (decode_field (mk y m d hh mm ss us) f) ++ [c_tab] ++
      (match lookup f with Some _ => [49] | None => [48] end)
  | [[102;109;116]; f; y; m; d; hh; mm; ss; us] =>
      show_items (mk y m d hh mm ss us) (scan (parse_cps f) false false [])
  | [[102;109;112]; f; y; m; d; hh; mm; ss; us] =>
      show_items (mk y m d hh mm ss us) (scan_pinned (parse_cps f) false false [])
  | [[118;97;108]; f] => if validate_format (parse_cps f) then [49] else [48]
  | [[115;102;116]; f; y; m; d; hh; mm; ss; us] =>
      show_cps (strftime (parse_cps f) (mk y m d hh mm ss us))
  | [[99;97;108]; y; m; d] =>
      Z_to_str (days_from_civil (zf y) (zf m) (zf d)) ++ [c_tab] ++
      Z_to_str (weekday (zf y) (zf m) (zf d)) ++ [c_tab] ++
      Z_to_str (day_of_year (zf y) (zf m) (zf d))
  | [[111;114;100]; n] =>
      let '(y, m, d) := civil_from_days (zf n) in
      Z_to_str y ++ [c_tab] ++ Z_to_str m ++ [c_tab] ++ Z_to_str d
  | [[100;117;114]; ms; st; l; s; a] =>
      duration_display (nf ms) (nf st) (nf l) (nf s) (match a with [49] => true | _ => false end)
  | [[97;117;116]; ms; l; s] =>
      let '(sm, lg) := auto_units (nf ms) (nf l) (nf s) in
      py_str_N sm ++ [c_tab] ++ py_str_N lg
  | [[114;100;98]; t] => join [44] (List.map py_str_N (readback t))
  | [[114;100;98]] => []
  | _ => [63]
  end.
