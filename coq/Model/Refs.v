(* Refs: executable mirror of the reference printer of numbers-parser
     model.node_to_ref / model.range_end                  (stored node -> CellRange)
     xrefs.CellRange.__str__ and the _format_* helpers    (CellRange -> text)
     xrefs.CellRange.expand_ref                           (quoting, '$', prefix choice)
     xrefs.ScopedNameRefCache.calculate_named_ranges /
       _calculate_name_scopes / _calculate_scope_types    (header label scopes)
   (the tree with the C09 repairs: fixes/C09-*.patch)
   over an abstract naming configuration [doc], and an INDEPENDENT resolver
   ([resolve_table], [resolve_text], [resolve_label]) written from the statement
   of property C09, not from expand_ref.
   Strings are lists of code points; Python exceptions are explicit.
   Definitions only; proofs are in Proofs/RefsP.v. *)
From Coq Require Import ZArith NArith List Bool Lia.
From NP Require Import Model.PyBase Model.A1.
Import ListNotations.
Open Scope N_scope.

(* ================= naming configuration ================= *)
(* a table: its name, the header counts and, for every row (column), the
   formatted value of the cell in the LAST header column (row) - the cell
   _row_data/_column_data read; "" for an empty cell.  number_of_rows /
   number_of_columns are the lengths of the two lists. *)
Record tbl := mk_tbl {
  t_name : str;
  t_nhr : nat;                  (* num_header_rows *)
  t_nhc : nat;                  (* num_header_cols *)
  t_rowlab : list str;          (* one per row *)
  t_collab : list str           (* one per column *)
}.
Definition sheet : Type := str * list tbl.
Definition doc : Type := list sheet.
(* a table id: sheet index, table index inside the sheet *)
Definition tid : Type := nat * nat.

Definition tid_eqb (a b : tid) : bool := Nat.eqb (fst a) (fst b) && Nat.eqb (snd a) (snd b).

Definition get_tbl (d : doc) (t : tid) : option tbl :=
  match nth_error d (fst t) with
  | Some s => nth_error (snd s) (snd t)
  | None => None
  end.

(* model.table_names(): every table name of the document, sheet by sheet *)
Definition all_table_names (d : doc) : list str := flat_map (fun s : sheet => map t_name (snd s)) d.
Definition count_str (n : str) (l : list str) : nat := length (filter (str_eqb n) l).

(* ================= header label scopes ================= *)
Inductive axis := ROW | COL.
Inductive scope := DOCUMENT | SHEET | TABLE | NONE.
Record sref := mk_sref { s_name : str; s_scope : scope }.

Definition axis_labels (t : tbl) (a : axis) : list str :=
  match a with ROW => t_rowlab t | COL => t_collab t end.
(* first body index along the axis *)
Definition axis_first (t : tbl) (a : axis) : nat :=
  match a with ROW => t_nhr t | COL => t_nhc t end.
(* rows have labels only when there is a header column, and vice versa *)
Definition axis_enabled (t : tbl) (a : axis) : bool :=
  match a with ROW => negb (Nat.eqb (t_nhc t) 0) | COL => negb (Nat.eqb (t_nhr t) 0) end.

(* _header_names: the labels of all body rows and body columns of a table (an axis
   contributes only when its header line exists) *)
Definition body_labels (t : tbl) (a : axis) : list str :=
  if axis_enabled t a then skipn (axis_first t a) (axis_labels t a) else [].
Definition header_names (t : tbl) : list str := body_labels t ROW ++ body_labels t COL.

Definition is_empty (s : str) : bool := match s with [] => true | _ => false end.

(* _calculate_name_scopes, first half: per index the label if it is not empty and occurs
   once among all header names of the table, else None *)
Fixpoint local_names_from (all : list str) (first idx : nat) (labs : list str) : list (option str) :=
  match labs with
  | [] => []
  | n :: r =>
    (if Nat.ltb idx first then None
     else if is_empty n then None
     else if Nat.ltb 1 (count_str n all) then None else Some n)
    :: local_names_from all first (S idx) r
  end.
Definition local_names (t : tbl) (a : axis) : list (option str) :=
  let labs := axis_labels t a in
  if axis_enabled t a
  then local_names_from (header_names t) (axis_first t a) 0 labs
  else map (fun _ => None) labs.

(* the names a table adds to doc_name_refs / sheet_name_refs (rows, then columns): every
   non-empty body label, repeated ones included *)
Definition contributed (t : tbl) : list str := filter (fun n => negb (is_empty n)) (header_names t).
Definition sheet_contrib (s : sheet) : list str := flat_map contributed (snd s).
Definition doc_contrib (d : doc) : list str := flat_map sheet_contrib d.

(* _calculate_scope_types *)
Definition scope_of (d : doc) (s : sheet) (t : tbl) (n : str) : scope :=
  if Nat.eqb (count_str n (doc_contrib d)) 1 then DOCUMENT
  else if Nat.eqb (count_str n (sheet_contrib s)) 1 then SHEET
  else if Nat.eqb (count_str (t_name t) (all_table_names d)) 1 then TABLE
  else NONE.

(* row_ranges[table] / col_ranges[table] *)
Definition ranges (d : doc) (t : tid) (a : axis) : result (list (option sref)) :=
  match nth_error d (fst t) with
  | None => Err KeyError
  | Some s =>
    match nth_error (snd s) (snd t) with
    | None => Err KeyError
    | Some tb =>
      Ok (map (fun o => match o with
                        | None => None
                        | Some n => Some (mk_sref n (scope_of d s tb n))
                        end) (local_names tb a))
    end
  end.

(* dict lookup row_range[idx] *)
Definition lookup_range (l : list (option sref)) (i : Z) : result (option sref) :=
  if ((i <? 0) || (Z.of_nat (length l) <=? i))%Z then Err KeyError   (* also keeps Z.to_nat small *)
  else match nth_error l (Z.to_nat i) with Some x => Ok x | None => Err KeyError end.

(* ================= stored nodes ================= *)
(* IndexSetEntry: range_begin, optional range_end *)
Record ise := mk_ise { i_begin : Z; i_end : option Z }.
(* model.range_end *)
Definition range_end (e : ise) : Z := match i_end e with Some x => x | None => i_begin e end.

Inductive node :=
| NTract (br_abs bc_abs er_abs ec_abs : bool)           (* AST_sticky_bits *)
         (abs_row rel_row abs_col rel_col : list ise)   (* AST_colon_tract *)
| NCell (row : option (Z * bool)) (col : option (Z * bool)).  (* AST_row / AST_column: value, absolute *)

Definition MAX_ROW : Z := 2147483647.   (* 0x7FFFFFFF *)
Definition MAX_COL : Z := 32767.        (* 0x7FFF *)

Record crange := mk_cr {
  row_start : option Z; row_end : option Z; col_start : option Z; col_end : option Z;
  rs_abs : bool; re_abs : bool; cs_abs : bool; ce_abs : bool;
  from_t : tid; to_t : tid
}.

(* absolute_list[0] on a repeated protobuf field *)
Definition first_entry (l : list ise) : result ise :=
  match l with e :: _ => Ok e | [] => Err IndexError end.

Definition resolve_range (is_abs : bool) (absl rell : list ise) (offset maxv : Z) : result Z :=
  if is_abs then do e <- first_entry absl ; Ok (i_begin e)
  else match rell with
       | [] => do e <- first_entry absl ;
               if (i_begin e =? maxv)%Z then Ok maxv else Err IndexError
       | r :: _ => Ok (offset + i_begin r)%Z
       end.
Definition resolve_range_end (is_abs : bool) (absl rell : list ise) (offset maxv : Z) : result Z :=
  if is_abs then do e <- first_entry absl ; Ok (range_end e)
  else match rell with
       | [] => do e <- first_entry absl ;
               if (range_end e =? maxv)%Z then Ok maxv else Err IndexError
       | r :: _ => Ok (offset + range_end r)%Z
       end.
Definition open_end (maxv v : Z) : option Z := if (v =? maxv)%Z then None else Some v.

(* model.node_to_ref; [to] is the table the cross-table uuid maps to (None: no extra info);
   CellRange._set_sheet_ids defaults it to the host table *)
Definition node_to_ref (from : tid) (row col : Z) (to : option tid) (n : node) : result crange :=
  let to' := match to with Some t => t | None => from end in
  match n with
  | NTract bra bca era eca absr relr absc relc =>
    do rb <- resolve_range bra absr relr row MAX_ROW ;
    do re <- resolve_range_end era absr relr row MAX_ROW ;
    do cb <- resolve_range bca absc relc col MAX_COL ;
    do ce <- resolve_range_end eca absc relc col MAX_COL ;
    Ok (mk_cr (open_end MAX_ROW rb) (open_end MAX_ROW re) (open_end MAX_COL cb) (open_end MAX_COL ce)
              bra era bca eca from to')
  | NCell r c =>
    let '(rv, ra) := match r with Some (v, a) => (v, a) | None => (0%Z, false) end in
    let '(cv, ca) := match c with Some (v, a) => (v, a) | None => (0%Z, false) end in
    let row' := if ra then rv else (row + rv)%Z in
    let col' := if ca then cv else (col + cv)%Z in
    match r, c with
    | Some _, None => Ok (mk_cr (Some row') None None None ra false false false from to')
    | None, Some _ => Ok (mk_cr None None (Some col') None false false ca false from to')
    | _, _ => Ok (mk_cr (Some row') None (Some col') None ra false ca false from to')
    end
  end.

(* ================= expand_ref ================= *)
(* OPERATOR_PRECEDENCE keys: % ^ x(215) * / div(247) + - & *)
Definition op_chars : list N := [37; 94; 215; 42; 47; 247; 43; 45; 38].
Definition is_op_char (c : N) : bool := existsb (N.eqb c) op_chars.
Definition c_quote : N := 39.
Definition quote_ref (s : str) : str :=
  if existsb is_op_char s then [c_quote] ++ s ++ [c_quote]
  else flat_map (fun c => if c =? c_quote then [c_quote; c_quote; c_quote] else [c]) s.

Inductive refarg := RText (s : str) | RName (r : sref).
Definition ref_scope_is (ref : refarg) (sc : scope) : bool :=
  match ref with
  | RText _ => false
  | RName r => match s_scope r, sc with
               | DOCUMENT, DOCUMENT | SHEET, SHEET | TABLE, TABLE | NONE, NONE => true
               | _, _ => false
               end
  end.

(* a printed reference part: the prefix parts (joined and followed by "::") and the body *)
Definition expand_ref (d : doc) (from to : tid) (ref : refarg) (is_abs no_prefix : bool)
  : result (list str * str) :=
  let name := match ref with RText s => s | RName r => s_name r end in
  let ref_str := quote_ref (dollar is_abs ++ name) in
  if no_prefix || ref_scope_is ref DOCUMENT then Ok ([], ref_str) else
  if tid_eqb from to then Ok ([], ref_str) else
  match get_tbl d to with
  | None => Err KeyError
  | Some t =>
    let same_sheet := Nat.eqb (fst from) (fst to) in
    if same_sheet && ref_scope_is ref SHEET then
      Ok (if is_abs then [t_name t] else [], ref_str)
    else
      let uniq := ref_scope_is ref TABLE || Nat.eqb (count_str (t_name t) (all_table_names d)) 1 in
      if same_sheet || uniq then Ok ([t_name t], ref_str)
      else match nth_error d (fst to) with
           | Some s => Ok ([fst s; t_name t], ref_str)
           | None => Err KeyError
           end
  end.

(* ================= CellRange.__str__ ================= *)
(* structured text: prefix parts, first part, optional second part (after ':') *)
Definition rtext : Type := list str * str * option str.

(* str(r + 1) *)
Definition py_str_Z (z : Z) : str :=
  if (z <? 0)%Z then c_minus :: py_str_N (Z.to_N (- z)) else py_str_N (Z.to_N z).
Definition py_str_Z1 (r : Z) : str := py_str_Z (r + 1).

Definition scope_is_doc (r : sref) : bool := match s_scope r with DOCUMENT => true | _ => false end.

(* single named line *)
Definition format_named_single (d : doc) (from to : tid) (s : sref) (s_abs : bool) : result rtext :=
  do p <- expand_ref d from to (RName s) s_abs false ; Ok (fst p, snd p, None).
(* span between two named lines *)
Definition format_named_span (d : doc) (from to : tid) (s e : sref) (s_abs e_abs : bool) : result rtext :=
  do p <- expand_ref d from to (RName s) s_abs (scope_is_doc s || scope_is_doc e) ;
  do q <- expand_ref d from to (RName e) e_abs true ;
  Ok (fst p, snd p, Some (snd q)).

Definition format_row_range (d : doc) (c : crange) (rs : Z) : result rtext :=
  do rng <- ranges d (to_t c) ROW ;
  do o <- lookup_range rng rs ;
  let numeric (e : Z) (e_abs : bool) :=
    do p <- expand_ref d (from_t c) (to_t c) (RText (py_str_Z1 rs)) (rs_abs c) false ;
    do q <- expand_ref d (from_t c) (to_t c) (RText (py_str_Z1 e)) e_abs true ;
    Ok (fst p, snd p, Some (snd q)) in
  match row_end c with
  | None =>
    match o with
    | None => numeric rs (rs_abs c)                        (* _format_numeric_row *)
    | Some s => format_named_single d (from_t c) (to_t c) s (rs_abs c)
    end
  | Some e =>
    match o with
    | None => numeric e (re_abs c)
    | Some s =>
      do o2 <- lookup_range rng e ;
      match o2 with
      | None => numeric e (re_abs c)
      | Some s2 => format_named_span d (from_t c) (to_t c) s s2 (rs_abs c) (re_abs c)
      end
    end
  end.

Definition format_col_range (d : doc) (c : crange) (cs : Z) : result rtext :=
  do rng <- ranges d (to_t c) COL ;
  do o <- lookup_range rng cs ;
  let numeric (e : option Z) :=
    do a <- xl_col_to_name cs (cs_abs c) ;
    do p <- expand_ref d (from_t c) (to_t c) (RText a) false false ;
    match e with
    | None => Ok (fst p, snd p, None)
    | Some e =>
      do b <- xl_col_to_name e (ce_abs c) ;
      do q <- expand_ref d (from_t c) (to_t c) (RText b) false true ;
      Ok (fst p, snd p, Some (snd q))
    end in
  match col_end c with
  | None =>
    match o with
    | None => numeric None
    | Some s => format_named_single d (from_t c) (to_t c) s (cs_abs c)
    end
  | Some e =>
    match o with
    | None => numeric (Some e)
    | Some s =>
      do o2 <- lookup_range rng e ;
      match o2 with
      | None => numeric (Some e)
      | Some s2 => format_named_span d (from_t c) (to_t c) s s2 (cs_abs c) (ce_abs c)
      end
    end
  end.

Definition format_cell_range (d : doc) (c : crange) (rs cs : Z) : result rtext :=
  do a <- xl_rowcol_to_cell rs cs (rs_abs c) (cs_abs c) ;
  match row_end c, col_end c with
  | Some re, Some ce =>
    do p <- expand_ref d (from_t c) (to_t c) (RText a) false false ;
    do b <- xl_rowcol_to_cell re ce (re_abs c) (ce_abs c) ;
    do q <- expand_ref d (from_t c) (to_t c) (RText b) false true ;
    Ok (fst p, snd p, Some (snd q))
  | _, _ =>
    do p <- expand_ref d (from_t c) (to_t c) (RText a) false false ;
    Ok (fst p, snd p, None)
  end.

Definition cr_str (d : doc) (c : crange) : result rtext :=
  match col_start c, row_start c with
  | None, Some rs => format_row_range d c rs
  | None, None => Err KeyError                 (* row_range[None] *)
  | Some cs, None => format_col_range d c cs
  | Some cs, Some rs => format_cell_range d c rs cs
  end.

(* the whole reader path for one xref node *)
Definition ref_text (d : doc) (from : tid) (row col : Z) (to : option tid) (n : node) : result rtext :=
  do c <- node_to_ref from row col to n ; cr_str d c.

(* flat text as the library prints it *)
Definition sep2 : str := [c_colon; c_colon].
Definition flat (t : rtext) : str :=
  let '(pre, a, b) := t in
  flat_map (fun p => p ++ sep2) pre ++ a ++ match b with Some x => c_colon :: x | None => [] end.

(* ================= independent resolver ================= *)
(* written from the statement of the property, not from expand_ref *)
(* indices (counted from i) of the elements satisfying p *)
Fixpoint find_idx {A} (p : A -> bool) (l : list A) (i : nat) : list nat :=
  match l with
  | [] => []
  | x :: r => (if p x then [i] else []) ++ find_idx p r (S i)
  end.

Definition name_is (n : str) (t : tbl) : bool := str_eqb n (t_name t).
Definition sheet_is (n : str) (s : sheet) : bool := str_eqb n (fst s).

Definition tables_in_sheet (d : doc) (si : nat) (n : str) : list tid :=
  match nth_error d si with
  | Some s => map (pair si) (find_idx (name_is n) (snd s) 0)
  | None => []
  end.
Fixpoint tables_from (si : nat) (ss : list sheet) (n : str) : list tid :=
  match ss with
  | [] => []
  | s :: r => map (pair si) (find_idx (name_is n) (snd s) 0) ++ tables_from (S si) r n
  end.
Definition tables_in_doc (d : doc) (n : str) : list tid := tables_from 0 d n.
Definition sheets_named (d : doc) (n : str) : list nat := find_idx (sheet_is n) d 0.

(* which tables does a prefix name, seen from the host table?
     no prefix        -> the host table itself
     table::          -> a table of that name in the host's sheet; if there is none, in the whole document
     sheet::table::   -> the tables of that name in the sheets of that name *)
Definition resolve_table (d : doc) (host : tid) (prefix : list str) : list tid :=
  match prefix with
  | [] => [host]
  | [tn] => match tables_in_sheet d (fst host) tn with
            | [] => tables_in_doc d tn
            | l => l
            end
  | [sn; tn] => flat_map (fun si => tables_in_sheet d si tn) (sheets_named d sn)
  | _ => []
  end.

(* a coordinate text (cell, row number, column letters) names the table(s) of its prefix *)
Definition resolve_text (d : doc) (host : tid) (p : list str * str) : list (tid * str) :=
  map (fun t => (t, snd p)) (resolve_table d host (fst p)).

(* the prefix expand_ref chooses for a coordinate text *)
Definition qualify (d : doc) (host tgt : tid) (r : str) (is_abs : bool) : result (list str * str) :=
  expand_ref d host tgt (RText r) is_abs false.

(* ---- labels ---- *)
(* the rows / columns of one table that carry the label: body indices of an axis whose header line exists *)
Definition label_hits_axis (t : tbl) (a : axis) (n : str) : list (axis * nat) :=
  if axis_enabled t a then
    map (pair a)
        (filter (fun i => Nat.leb (axis_first t a) i)
                (find_idx (str_eqb n) (axis_labels t a) 0))
  else [].
Definition label_hits_tbl (t : tbl) (n : str) : list (axis * nat) :=
  label_hits_axis t ROW n ++ label_hits_axis t COL n.
Definition hit : Type := tid * (axis * nat).
Definition label_hits (d : doc) (t : tid) (n : str) : list hit :=
  match get_tbl d t with
  | Some tb => map (pair t) (label_hits_tbl tb n)
  | None => []
  end.
Fixpoint tbl_hits_from (si ti : nat) (ts : list tbl) (n : str) : list hit :=
  match ts with
  | [] => []
  | t :: r => map (pair (si, ti)) (label_hits_tbl t n) ++ tbl_hits_from si (S ti) r n
  end.
Definition sheet_hits (d : doc) (si : nat) (n : str) : list hit :=
  match nth_error d si with
  | Some s => tbl_hits_from si 0 (snd s) n
  | None => []
  end.
Fixpoint doc_hits_from (si : nat) (ss : list sheet) (n : str) : list hit :=
  match ss with
  | [] => []
  | s :: r => tbl_hits_from si 0 (snd s) n ++ doc_hits_from (S si) r n
  end.
Definition doc_hits (d : doc) (n : str) : list hit := doc_hits_from 0 d n.

(* a label with a prefix is looked up in the table(s) the prefix names; a bare label
   in the innermost scope that knows it: host table, then host sheet, then document *)
Definition resolve_label (d : doc) (host : tid) (prefix : list str) (n : str) : list hit :=
  match prefix with
  | [] =>
    match label_hits d host n with
    | (_ :: _) as l => l
    | [] =>
      match sheet_hits d (fst host) n with
      | (_ :: _) as l => l
      | [] => doc_hits d n
      end
    end
  | _ => flat_map (fun t => label_hits d t n) (resolve_table d host prefix)
  end.

(* ---- spans of two header names a:b ---- *)
(* a span names a table in which both names are labels (the scope found for one end is used
   for the other); with a prefix: in the table(s) the prefix names; bare: innermost scope first *)
Definition line : Type := axis * nat.
Definition span_hits_tbl (t : tbl) (n1 n2 : str) : list (line * line) :=
  list_prod (label_hits_tbl t n1) (label_hits_tbl t n2).
Definition shit : Type := tid * (line * line).
Definition span_hits (d : doc) (t : tid) (n1 n2 : str) : list shit :=
  match get_tbl d t with
  | Some tb => map (pair t) (span_hits_tbl tb n1 n2)
  | None => []
  end.
Fixpoint tbl_span_from (si ti : nat) (ts : list tbl) (n1 n2 : str) : list shit :=
  match ts with
  | [] => []
  | t :: r => map (pair (si, ti)) (span_hits_tbl t n1 n2) ++ tbl_span_from si (S ti) r n1 n2
  end.
Definition sheet_span (d : doc) (si : nat) (n1 n2 : str) : list shit :=
  match nth_error d si with
  | Some s => tbl_span_from si 0 (snd s) n1 n2
  | None => []
  end.
Fixpoint doc_span_from (si : nat) (ss : list sheet) (n1 n2 : str) : list shit :=
  match ss with
  | [] => []
  | s :: r => tbl_span_from si 0 (snd s) n1 n2 ++ doc_span_from (S si) r n1 n2
  end.
Definition doc_span (d : doc) (n1 n2 : str) : list shit := doc_span_from 0 d n1 n2.

Definition resolve_span (d : doc) (host : tid) (prefix : list str) (n1 n2 : str) : list shit :=
  match prefix with
  | [] =>
    match span_hits d host n1 n2 with
    | (_ :: _) as l => l
    | [] =>
      match sheet_span d (fst host) n1 n2 with
      | (_ :: _) as l => l
      | [] => doc_span d n1 n2
      end
    end
  | _ => flat_map (fun t => span_hits d t n1 n2) (resolve_table d host prefix)
  end.

(* reading a printed label body back: undo quote_ref, then the '$' mark *)
Fixpoint untriple (fuel : nat) (s : str) : str :=
  match fuel with
  | O => s
  | S f =>
    match s with
    | a :: ((b :: c :: r) as t) =>
      if (a =? c_quote) && (b =? c_quote) && (c =? c_quote) then c_quote :: untriple f r
      else a :: untriple f t
    | a :: r => a :: untriple f r
    | [] => []
    end
  end.
Definition unquote_ref (b : str) : str :=
  match b with
  | q :: r =>
    match rev r with
    | q2 :: ri =>
      if (q =? c_quote) && (q2 =? c_quote) && existsb is_op_char (rev ri) then rev ri
      else untriple (length b) b
    | [] => untriple (length b) b
    end
  | [] => []
  end.
Definition decode_label (b : str) : bool * str := opt_dollar (unquote_ref b).
