(* Refs: executable mirror of the reference printer of numbers-parser
     model.node_to_ref / model.range_end                  (stored node -> CellRange)
     xrefs.CellRange.__str__ and the _format_* helpers    (CellRange -> text)
     xrefs.CellRange.expand_ref                           (quoting, '$', prefix choice)
     xrefs.ScopedNameRefCache.calculate_named_ranges /
       _calculate_name_scopes / _calculate_scope_types    (header label scopes)
   over an abstract naming configuration [doc], and an INDEPENDENT resolver
   ([resolve_table], [resolve_text], [resolve_label]) written from the statement
   of property C09, not from expand_ref.
   Strings are lists of code points; Python exceptions are explicit.
   Definitions only; proofs are in Proofs/RefsP.v. *)
From Coq Require Import ZArith NArith List Bool Lia.
From NP Require Import Model.PyBase Model.A1.
Import ListNotations.
Open Scope N_scope.

(* ================= naming configuration ================= *)
(* a table: its name, the header counts and, for every row (column), the
   formatted value of the cell in the LAST header column (row) - the cell
   _row_data/_column_data read; "" for an empty cell.  number_of_rows /
   number_of_columns are the lengths of the two lists. *)
Record tbl := mk_tbl {
  t_name : str;
  t_nhr : nat;                  (* num_header_rows *)
  t_nhc : nat;                  (* num_header_cols *)
  t_rowlab : list str;          (* one per row *)
  t_collab : list str           (* one per column *)
}.
Definition sheet : Type := str * list tbl.
Definition doc : Type := list sheet.
(* a table id: sheet index, table index inside the sheet *)
Definition tid : Type := nat * nat.

Definition tid_eqb (a b : tid) : bool := Nat.eqb (fst a) (fst b) && Nat.eqb (snd a) (snd b).

Definition get_tbl (d : doc) (t : tid) : option tbl :=
  match nth_error d (fst t) with
  | Some s => nth_error (snd s) (snd t)
  | None => None
  end.

(* model.table_names(): every table name of the document, sheet by sheet *)
Definition all_table_names (d : doc) : list str := flat_map (fun s : sheet => map t_name (snd s)) d.
Definition count_str (n : str) (l : list str) : nat := length (filter (str_eqb n) l).

(* ================= header label scopes ================= *)
Inductive axis := ROW | COL.
Inductive scope := DOCUMENT | SHEET | TABLE | NONE.
Record sref := mk_sref { s_name : str; s_scope : scope }.

Definition axis_labels (t : tbl) (a : axis) : list str :=
  match a with ROW => t_rowlab t | COL => t_collab t end.
(* first body index along the axis *)
Definition axis_first (t : tbl) (a : axis) : nat :=
  match a with ROW => t_nhr t | COL => t_nhc t end.
(* rows have labels only when there is a header column, and vice versa *)
Definition axis_enabled (t : tbl) (a : axis) : bool :=
  match a with ROW => negb (Nat.eqb (t_nhc t) 0) | COL => negb (Nat.eqb (t_nhr t) 0) end.

(* _calculate_name_scopes, first half: per index the label if it occurs once
   among the body labels of this axis of this table, else None *)
Fixpoint local_names_from (body : list str) (first idx : nat) (labs : list str) : list (option str) :=
  match labs with
  | [] => []
  | n :: r =>
    (if Nat.ltb idx first then None
     else if Nat.ltb 1 (count_str n body) then None else Some n)
    :: local_names_from body first (S idx) r
  end.
Definition local_names (t : tbl) (a : axis) : list (option str) :=
  let labs := axis_labels t a in
  if axis_enabled t a
  then local_names_from (skipn (axis_first t a) labs) (axis_first t a) 0 labs
  else map (fun _ => None) labs.

Fixpoint somes {A} (l : list (option A)) : list A :=
  match l with [] => [] | Some x :: r => x :: somes r | None :: r => somes r end.

(* the names a table adds to doc_name_refs / sheet_name_refs (rows, then columns) *)
Definition contributed (t : tbl) : list str := somes (local_names t ROW) ++ somes (local_names t COL).
Definition sheet_contrib (s : sheet) : list str := flat_map contributed (snd s).
Definition doc_contrib (d : doc) : list str := flat_map sheet_contrib d.

(* _calculate_scope_types *)
Definition scope_of (d : doc) (s : sheet) (t : tbl) (n : str) : scope :=
  if Nat.eqb (count_str n (doc_contrib d)) 1 then DOCUMENT
  else if Nat.eqb (count_str n (sheet_contrib s)) 1 then SHEET
  else if Nat.eqb (count_str (t_name t) (all_table_names d)) 1 then TABLE
  else NONE.

(* row_ranges[table] / col_ranges[table] *)
Definition ranges (d : doc) (t : tid) (a : axis) : result (list (option sref)) :=
  match nth_error d (fst t) with
  | None => Err KeyError
  | Some s =>
    match nth_error (snd s) (snd t) with
    | None => Err KeyError
    | Some tb =>
      Ok (map (fun o => match o with
                        | None => None
                        | Some n => Some (mk_sref n (scope_of d s tb n))
                        end) (local_names tb a))
    end
  end.

(* dict lookup row_range[idx] *)
Definition lookup_range (l : list (option sref)) (i : Z) : result (option sref) :=
  if ((i <? 0) || (Z.of_nat (length l) <=? i))%Z then Err KeyError   (* also keeps Z.to_nat small *)
  else match nth_error l (Z.to_nat i) with Some x => Ok x | None => Err KeyError end.

(* ================= stored nodes ================= *)
(* IndexSetEntry: range_begin, optional range_end *)
Record ise := mk_ise { i_begin : Z; i_end : option Z }.
(* model.range_end *)
Definition range_end (e : ise) : Z := match i_end e with Some x => x | None => i_begin e end.

Inductive node :=
| NTract (br_abs bc_abs er_abs ec_abs : bool)           (* AST_sticky_bits *)
         (abs_row rel_row abs_col rel_col : list ise)   (* AST_colon_tract *)
| NCell (row : option (Z * bool)) (col : option (Z * bool)).  (* AST_row / AST_column: value, absolute *)

Definition MAX_ROW : Z := 2147483647.   (* 0x7FFFFFFF *)
Definition MAX_COL : Z := 32767.        (* 0x7FFF *)

Record crange := mk_cr {
  row_start : option Z; row_end : option Z; col_start : option Z; col_end : option Z;
  rs_abs : bool; re_abs : bool; cs_abs : bool; ce_abs : bool;
  from_t : tid; to_t : tid
}.

(* absolute_list[0] on a repeated protobuf field *)
Definition first_entry (l : list ise) : result ise :=
  match l with e :: _ => Ok e | [] => Err IndexError end.

Definition resolve_range (is_abs : bool) (absl rell : list ise) (offset maxv : Z) : result Z :=
  if is_abs then do e <- first_entry absl ; Ok (i_begin e)
  else match rell with
       | [] => do e <- first_entry absl ;
               if (i_begin e =? maxv)%Z then Ok maxv else Err IndexError
       | r :: _ => Ok (offset + i_begin r)%Z
       end.
Definition resolve_range_end (is_abs : bool) (absl rell : list ise) (offset maxv : Z) : result Z :=
  if is_abs then do e <- first_entry absl ; Ok (range_end e)
  else match rell with
       | [] => do e <- first_entry absl ;
               if (range_end e =? maxv)%Z then Ok maxv else Err IndexError
       | r :: _ => Ok (offset + range_end r)%Z
       end.
Definition open_end (maxv v : Z) : option Z := if (v =? maxv)%Z then None else Some v.

(* model.node_to_ref; [to] is the table the cross-table uuid maps to (None: no extra info);
   CellRange._set_sheet_ids defaults it to the host table *)
Definition node_to_ref (from : tid) (row col : Z) (to : option tid) (n : node) : result crange :=
  let to' := match to with Some t => t | None => from end in
  match n with
  | NTract bra bca era eca absr relr absc relc =>
    do rb <- resolve_range bra absr relr row MAX_ROW ;
    do re <- resolve_range_end era absr relr row MAX_ROW ;
    do cb <- resolve_range bca absc relc col MAX_COL ;
    do ce <- resolve_range_end eca absc relc col MAX_COL ;
    Ok (mk_cr (open_end MAX_ROW rb) (open_end MAX_ROW re) (open_end MAX_COL cb) (open_end MAX_COL ce)
              bra era bca eca from to')
  | NCell r c =>
    let '(rv, ra) := match r with Some (v, a) => (v, a) | None => (0%Z, false) end in
    let '(cv, ca) := match c with Some (v, a) => (v, a) | None => (0%Z, false) end in
    let row' := if ra then rv else (row + rv)%Z in
    let col' := if ca then cv else (col + cv)%Z in
    match r, c with
    | Some _, None => Ok (mk_cr (Some row') None None None ra false false false from to')
    | None, Some _ => Ok (mk_cr None None (Some col') None false false ca false from to')
    | _, _ => Ok (mk_cr (Some row') None (Some col') None ra false ca false from to')
    end
  end.

(* ================= expand_ref ================= *)
(* OPERATOR_PRECEDENCE keys: % ^ x(215) * / div(247) + - & *)
Definition op_chars : list N := [37; 94; 215; 42; 47; 247; 43; 45; 38].
Definition is_op_char (c : N) : bool := existsb (N.eqb c) op_chars.
Definition c_quote : N := 39.
Definition quote_ref (s : str) : str :=
  if existsb is_op_char s then [c_quote] ++ s ++ [c_quote]
  else flat_map (fun c => if c =? c_quote then [c_quote; c_quote; c_quote] else [c]) s.

Inductive refarg := RText (s : str) | RName (r : sref).
Definition ref_scope_is (ref : refarg) (sc : scope) : bool :=
  match ref with
  | RText _ => false
  | RName r => match s_scope r, sc with
               | DOCUMENT, DOCUMENT | SHEET, SHEET | TABLE, TABLE | NONE, NONE => true
               | _, _ => false
               end
  end.

(* a printed reference part: the prefix parts (joined and followed by "::") and the body *)
Definition expand_ref (d : doc) (from to : tid) (ref : refarg) (is_abs no_prefix : bool)
  : result (list str * str) :=
  let name := match ref with RText s => s | RName r => s_name r end in
  let ref_str := quote_ref (dollar is_abs ++ name) in
  if no_prefix || ref_scope_is ref DOCUMENT then Ok ([], ref_str) else
  if tid_eqb from to then Ok ([], ref_str) else
  match get_tbl d to with
  | None => Err KeyError
  | Some t =>
    let same_sheet := Nat.eqb (fst from) (fst to) in
    if same_sheet && ref_scope_is ref SHEET then
      Ok (if is_abs then [t_name t] else [], ref_str)
    else
      let uniq := ref_scope_is ref TABLE || Nat.eqb (count_str (t_name t) (all_table_names d)) 1 in
      if same_sheet || uniq then Ok ([t_name t], ref_str)
      else match nth_error d (fst to) with
           | Some s => Ok ([fst s; t_name t], ref_str)
           | None => Err KeyError
           end
  end.

(* ================= CellRange.__str__ ================= *)
(* structured text: prefix parts, first part, optional second part (after ':') *)
Definition rtext : Type := list str * str * option str.

(* str(r + 1) *)
Definition py_str_Z (z : Z) : str :=
  if (z <? 0)%Z then c_minus :: py_str_N (Z.to_N (- z)) else py_str_N (Z.to_N z).
Definition py_str_Z1 (r : Z) : str := py_str_Z (r + 1).

(* what expand_ref does when handed row_range[row_end] = None:
   f"${None}" if absolute, else `x in None` raises TypeError *)
Definition none_text : str := [78; 111; 110; 101].
Definition crash_attr : pyexn := OtherCrash 1.   (* AttributeError / TypeError on a None range entry *)

Definition scope_is_doc (o : option sref) : result bool :=
  match o with
  | None => Err crash_attr
  | Some r => Ok (match s_scope r with DOCUMENT => true | _ => false end)
  end.
Definition expand_opt (d : doc) (from to : tid) (o : option sref) (is_abs : bool) : result str :=
  match o with
  | Some r => do p <- expand_ref d from to (RName r) is_abs true ; Ok (snd p)
  | None => if is_abs then Ok (quote_ref (dollar true ++ none_text)) else Err crash_attr
  end.

Definition format_axis_named (d : doc) (from to : tid) (rng : list (option sref))
           (s : sref) (e : option Z) (s_abs e_abs : bool) : result rtext :=
  match e with
  | None => do p <- expand_ref d from to (RName s) s_abs false ; Ok (fst p, snd p, None)
  | Some ev =>
    do nop <- (if match s_scope s with DOCUMENT => true | _ => false end then Ok true
               else do o <- lookup_range rng ev ; scope_is_doc o) ;
    do p <- expand_ref d from to (RName s) s_abs nop ;
    do o2 <- lookup_range rng ev ;
    do q <- expand_opt d from to o2 e_abs ;
    Ok (fst p, snd p, Some q)
  end.

Definition format_row_range (d : doc) (c : crange) (rs : Z) : result rtext :=
  do rng <- ranges d (to_t c) ROW ;
  do o <- lookup_range rng rs ;
  match o with
  | None =>
    let e := match row_end c with None => rs | Some e => e end in
    let e_abs := match row_end c with None => rs_abs c | Some _ => re_abs c end in
    do p <- expand_ref d (from_t c) (to_t c) (RText (py_str_Z1 rs)) (rs_abs c) false ;
    do q <- expand_ref d (from_t c) (to_t c) (RText (py_str_Z1 e)) e_abs true ;
    Ok (fst p, snd p, Some (snd q))
  | Some s => format_axis_named d (from_t c) (to_t c) rng s (row_end c) (rs_abs c) (re_abs c)
  end.

Definition format_col_range (d : doc) (c : crange) (cs : Z) : result rtext :=
  do rng <- ranges d (to_t c) COL ;
  do o <- lookup_range rng cs ;
  match o with
  | None =>
    do a <- xl_col_to_name cs (cs_abs c) ;
    do p <- expand_ref d (from_t c) (to_t c) (RText a) false false ;
    match col_end c with
    | None => Ok (fst p, snd p, None)
    | Some e =>
      do b <- xl_col_to_name e (ce_abs c) ;
      do q <- expand_ref d (from_t c) (to_t c) (RText b) false true ;
      Ok (fst p, snd p, Some (snd q))
    end
  | Some s => format_axis_named d (from_t c) (to_t c) rng s (col_end c) (cs_abs c) (ce_abs c)
  end.

Definition format_cell_range (d : doc) (c : crange) (rs cs : Z) : result rtext :=
  do a <- xl_rowcol_to_cell rs cs (rs_abs c) (cs_abs c) ;
  match row_end c, col_end c with
  | Some re, Some ce =>
    do p <- expand_ref d (from_t c) (to_t c) (RText a) false false ;
    do b <- xl_rowcol_to_cell re ce (re_abs c) (ce_abs c) ;
    do q <- expand_ref d (from_t c) (to_t c) (RText b) false true ;
    Ok (fst p, snd p, Some (snd q))
  | _, _ =>
    do p <- expand_ref d (from_t c) (to_t c) (RText a) false false ;
    Ok (fst p, snd p, None)
  end.

Definition cr_str (d : doc) (c : crange) : result rtext :=
  match col_start c, row_start c with
  | None, Some rs => format_row_range d c rs
  | None, None => Err KeyError                 (* row_range[None] *)
  | Some cs, None => format_col_range d c cs
  | Some cs, Some rs => format_cell_range d c rs cs
  end.

(* the whole reader path for one xref node *)
Definition ref_text (d : doc) (from : tid) (row col : Z) (to : option tid) (n : node) : result rtext :=
  do c <- node_to_ref from row col to n ; cr_str d c.

(* flat text as the library prints it *)
Definition sep2 : str := [c_colon; c_colon].
Definition flat (t : rtext) : str :=
  let '(pre, a, b) := t in
  flat_map (fun p => p ++ sep2) pre ++ a ++ match b with Some x => c_colon :: x | None => [] end.

(* ================= independent resolver ================= *)
(* indices of the elements satisfying p *)
Fixpoint find_idx {A} (p : A -> bool) (l : list A) (i : nat) : list nat :=
  match l with
  | [] => []
  | x :: r => (if p x then [i] else []) ++ find_idx p r (S i)
  end.

Definition tables_in_sheet (d : doc) (si : nat) (n : str) : list tid :=
  match nth_error d si with
  | Some s => map (pair si) (find_idx (fun t => str_eqb (t_name t) n) (snd s) 0)
  | None => []
  end.
Definition tables_in_doc (d : doc) (n : str) : list tid :=
  flat_map (fun si => tables_in_sheet d si n) (seq 0 (length d)).
Definition sheets_named (d : doc) (n : str) : list nat :=
  find_idx (fun s : sheet => str_eqb (fst s) n) d 0.

(* which tables does a prefix name, seen from the host table?
     no prefix        -> the host table itself
     table::          -> a table of that name in the host's sheet; if there is none, in the whole document
     sheet::table::   -> the tables of that name in the sheets of that name *)
Definition resolve_table (d : doc) (host : tid) (prefix : list str) : list tid :=
  match prefix with
  | [] => [host]
  | [tn] => match tables_in_sheet d (fst host) tn with
            | [] => tables_in_doc d tn
            | l => l
            end
  | [sn; tn] => flat_map (fun si => tables_in_sheet d si tn) (sheets_named d sn)
  | _ => []
  end.

(* a coordinate text (cell, row number, column letters) names the table(s) of its prefix *)
Definition resolve_text (d : doc) (host : tid) (p : list str * str) : list (tid * str) :=
  map (fun t => (t, snd p)) (resolve_table d host (fst p)).

(* the prefix expand_ref chooses for a coordinate text *)
Definition qualify (d : doc) (host tgt : tid) (r : str) (is_abs : bool) : result (list str * str) :=
  expand_ref d host tgt (RText r) is_abs false.

(* ---- labels ---- *)
(* the rows / columns of one table that carry the label: body indices of an enabled axis *)
Definition label_hits_axis (t : tbl) (a : axis) (n : str) : list (axis * nat) :=
  if axis_enabled t a then
    map (fun i => (a, i))
        (filter (fun i => Nat.leb (axis_first t a) i)
                (find_idx (fun l => str_eqb l n) (axis_labels t a) 0))
  else [].
Definition label_hits_tbl (t : tbl) (n : str) : list (axis * nat) :=
  label_hits_axis t ROW n ++ label_hits_axis t COL n.
Definition label_hits (d : doc) (t : tid) (n : str) : list (tid * (axis * nat)) :=
  match get_tbl d t with
  | Some tb => map (fun h => (t, h)) (label_hits_tbl tb n)
  | None => []
  end.
Definition sheet_tids (d : doc) (si : nat) : list tid :=
  match nth_error d si with
  | Some s => map (pair si) (seq 0 (length (snd s)))
  | None => []
  end.
Definition doc_tids (d : doc) : list tid := flat_map (sheet_tids d) (seq 0 (length d)).

(* a label with a prefix is looked up in the table(s) the prefix names; a bare label
   in the innermost scope that knows it: host table, then host sheet, then document *)
Definition resolve_label (d : doc) (host : tid) (prefix : list str) (n : str)
  : list (tid * (axis * nat)) :=
  match prefix with
  | [] =>
    match label_hits d host n with
    | (_ :: _) as l => l
    | [] =>
      match flat_map (fun t => label_hits d t n) (sheet_tids d (fst host)) with
      | (_ :: _) as l => l
      | [] => flat_map (fun t => label_hits d t n) (doc_tids d)
      end
    end
  | _ => flat_map (fun t => label_hits d t n) (resolve_table d host prefix)
  end.

(* reading a printed label body back: undo quote_ref, then the '$' mark *)
Fixpoint untriple (fuel : nat) (s : str) : str :=
  match fuel with
  | O => s
  | S f =>
    match s with
    | 39 :: 39 :: 39 :: r => 39 :: untriple f r
    | c :: r => c :: untriple f r
    | [] => []
    end
  end.
Definition unquote_ref (b : str) : str :=
  match b with
  | 39 :: r =>
    match rev r with
    | 39 :: ri => let inner := rev ri in
                  if existsb is_op_char inner then inner else untriple (length b) b
    | _ => untriple (length b) b
    end
  | _ => untriple (length b) b
  end.
Definition decode_label (b : str) : bool * str := opt_dollar (unquote_ref b).
