(* Varint: protobuf base-128 varints as the library uses them.
     encode_varint   = google.protobuf.internal.encoder._VarintBytes
     decode_varint_raw / decode_varint32
                     = google.protobuf.internal.decoder._VarintDecoder(mask) with
                       the pure-Python raising behaviour: buffer[pos] past the
                       end raises IndexError, a 10th byte with the continuation
                       bit raises DecodeError ("Too many bytes when decoding varint").
   N-indexed take/drop (Python slicing with clamping) live here because every
   user of varints slices by a decoded length. *)
From Coq Require Import NArith List Bool Lia.
From NP Require Import Model.PyBase.
Import ListNotations.
Open Scope N_scope.

(* exception tags that PyBase does not name (all foreign to the library) *)
Definition DecodeError : pyexn := OtherCrash 1.      (* google.protobuf.message.DecodeError *)
Definition NotImplementedErr : pyexn := OtherCrash 2. (* numbers_parser.exceptions.NotImplementedError *)

(* data[:n] and data[n:] for n >= 0, clamped like Python slices; structural on the
   list so that no unary nat of data size is ever built *)
Fixpoint takeN {A} (n : N) (l : list A) : list A :=
  match l with
  | [] => []
  | x :: r => if n =? 0 then [] else x :: takeN (N.pred n) r
  end.
Fixpoint dropN {A} (n : N) (l : list A) : list A :=
  match l with
  | [] => []
  | x :: r => if n =? 0 then l else dropN (N.pred n) r
  end.
Definition lenN {A} (l : list A) : N := N.of_nat (length l).

(* l[i] with IndexError made explicit by option *)
Fixpoint nthN {A} (n : N) (l : list A) : option A :=
  match l with
  | [] => None
  | x :: r => if n =? 0 then Some x else nthN (N.pred n) r
  end.

(* ---------- encoder ---------- *)
(* bits = value & 0x7f; value >>= 7; while value: write(0x80|bits); ... ; write(bits) *)
Fixpoint enc_varint (fuel : nat) (n : N) : bytes :=
  match fuel with
  | O => [n mod 128]
  | S f => if n <? 128 then [n] else (128 + n mod 128) :: enc_varint f (n / 128)
  end.
Definition encode_varint (n : N) : bytes := enc_varint (N.size_nat n) n.

(* ---------- decoder ---------- *)
(* [left] = bytes that may still be read before shift reaches 64 (ten in all);
   [m] = 2^shift; [acc] = result so far.  The check `shift >= 64` happens after a
   byte with the continuation bit, before the next byte is read. *)
Fixpoint dec_varint (left : nat) (b : bytes) (m acc : N) : result (N * bytes) :=
  match left with
  | O => Err DecodeError
  | S f =>
    match b with
    | [] => Err IndexError
    | x :: r =>
      let acc' := acc + (x mod 128) * m in
      if x <? 128 then Ok (acc', r) else dec_varint f r (m * 128) acc'
    end
  end.
Definition decode_varint_raw (b : bytes) : result (N * bytes) := dec_varint 10 b 1 0.
(* _DecodeVarint32: mask (1 << 32) - 1 *)
Definition decode_varint32 (b : bytes) : result (N * bytes) :=
  do '(v, r) <- decode_varint_raw b ; Ok (v mod 4294967296, r).
(* 64-bit values as the protobuf runtime keeps them *)
Definition decode_varint64 (b : bytes) : result (N * bytes) :=
  do '(v, r) <- decode_varint_raw b ; Ok (v mod 18446744073709551616, r).
