(* Line protocol entry for the C19 Names model.  One request per line, tab separated:
     hist <lowtab> <doc> <cmd> <cmd> ...
   text is a comma separated list of decimal code points; a name is "=" followed by text.
     lowtab : entries "text=text" separated by ";" : Python's str.lower() of every non-ASCII
              name that occurs on the line (ASCII-only strings are lowered by [ascii_lower])
     doc    : sheets separated by "/", a sheet is  name ":" name ";" name ...   (its tables)
     cmd    : as;-;NAME          doc.add_sheet(None, NAME)        as;NAME;NAME   doc.add_sheet(n, t)
              at;SI;-            doc.sheets[SI].add_table()       at;SI;NAME
              rs;SI;NAME         doc.sheets[SI].name = NAME       rt;SI;TI;NAME
              gs;K  gt;SI;K      doc.sheets[K] / doc.sheets[SI].tables[K]
              ns;NAME nt;SI;NAME doc.sheets["..."] / .tables["..."]
              cs;NAME ct;SI;NAME "..." in doc.sheets / in .tables
   Result line: one result per cmd joined by "|".  Mutations print "ok" or "!Exn" followed by
   "#" and the whole document; lookups print "index=text" or "!Exn"; membership prints 0/1. *)
From Coq Require Import ZArith NArith List Bool.
From NP Require Import Model.PyBase Model.Names.
Import ListNotations.
Open Scope N_scope.

Definition parse_cps (s : list N) : list N :=
  match s with [] => [] | _ => map digits_to_N (split_on 44 s []) end.
Definition show_cps (s : list N) : list N := join [44] (map N_to_str s).
Definition parse_name (s : list N) : list N :=
  match s with 61 :: r => parse_cps r | _ => [] end.
Definition show_name (s : list N) : list N := 61 :: show_cps s.
Definition parse_opt_name (s : list N) : option (list N) :=
  match s with 61 :: r => Some (parse_cps r) | _ => None end.
Definition parse_list (sep : N) (s : list N) : list (list N) :=
  match s with [] => [] | _ => split_on sep s [] end.

Definition parse_lowtab (s : list N) : list (list N * list N) :=
  map (fun e => match split_on 61 e [] with
                | [a; b] => (parse_cps a, parse_cps b)
                | _ => ([], [])
                end) (parse_list 59 s).

Definition mk_lower (tab : list (list N * list N)) (s : list N) : list N :=
  match find (fun p => str_eqb (fst p) s) tab with
  | Some p => snd p
  | None => ascii_lower s
  end.

Definition parse_sheet (s : list N) : sheet :=
  match split_on 58 s [] with
  | [n; ts] => (parse_name n, map parse_name (parse_list 59 ts))
  | _ => ([], [])
  end.
Definition parse_doc (s : list N) : doc := map parse_sheet (parse_list 47 s).
Definition show_sheet (s : sheet) : list N :=
  show_name (fst s) ++ [58] ++ join [59] (map show_name (snd s)).
Definition show_doc (d : doc) : list N := join [47] (map show_sheet d).

Inductive cmd : Type :=
| Mut (o : op)
| GetS (k : Z) | GetT (si k : Z)
| NameS (key : list N) | NameT (si : Z) (key : list N)
| HasS (key : list N) | HasT (si : Z) (key : list N)
| Bad.

Definition parse_cmd (s : list N) : cmd :=
  match split_on 59 s [] with
  | [[97;115]; n; t] => Mut (AddSheet (parse_opt_name n) (parse_name t))
  | [[97;116]; si; n] => Mut (AddTable (str_to_Z si) (parse_opt_name n))
  | [[114;115]; si; n] => Mut (RenameSheet (str_to_Z si) (parse_name n))
  | [[114;116]; si; ti; n] => Mut (RenameTable (str_to_Z si) (str_to_Z ti) (parse_name n))
  | [[103;115]; k] => GetS (str_to_Z k)
  | [[103;116]; si; k] => GetT (str_to_Z si) (str_to_Z k)
  | [[110;115]; n] => NameS (parse_name n)
  | [[110;116]; si; n] => NameT (str_to_Z si) (parse_name n)
  | [[99;115]; n] => HasS (parse_name n)
  | [[99;116]; si; n] => HasT (str_to_Z si) (parse_name n)
  | _ => Bad
  end.

Definition show_found (it : list (list N)) (r : result nat) : list N :=
  match r with
  | Err e => show_err e
  | Ok i => match fetch it i with
            | Ok x => N_to_str (N.of_nat i) ++ show_name x
            | Err e => show_err e
            end
  end.

Definition with_sheet (d : doc) (si : Z) (f : list (list N) -> list N) : list N :=
  match get d si with Ok s => f (snd s) | Err e => show_err e end.

Definition exec (lower : list N -> list N) (d : doc) (c : cmd) : doc * list N :=
  match c with
  | Mut o =>
    let '(d', r) := step lower d o in
    (d', (match r with Ok _ => [111;107] | Err e => show_err e end) ++ [35] ++ show_doc d')
  | GetS k => (d, show_found (sheet_names d) (get_idx (length d) k))
  | GetT si k => (d, with_sheet d si (fun ts => show_found ts (get_idx (length ts) k)))
  | NameS key => (d, show_found (sheet_names d) (get_by_name (sheet_names d) key))
  | NameT si key => (d, with_sheet d si (fun ts => show_found ts (get_by_name ts key)))
  | HasS key => (d, if contains lower (sheet_names d) key then [49] else [48])
  | HasT si key => (d, with_sheet d si (fun ts => if contains lower ts key then [49] else [48]))
  | Bad => (d, [63])
  end.

Fixpoint exec_all (lower : list N -> list N) (d : doc) (cs : list cmd) : list (list N) :=
  match cs with
  | [] => []
  | c :: r => let '(d', o) := exec lower d c in o :: exec_all lower d' r
  end.

Definition handle (line : list N) : list N :=
  match fields line with
  | [104;105;115;116] :: lt :: d0 :: cmds =>
    join [124] (exec_all (mk_lower (parse_lowtab lt)) (parse_doc d0) (map parse_cmd cmds))
  | _ => [63]
  end.
