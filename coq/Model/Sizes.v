(* Sizes: row heights / column widths (C16).

   Mirrors, for ONE row or column ("line") of one table,
     model.py: _NumbersModel.row_height / col_width            (observe, set_size)
               recalculate_row_headers / recalculate_column_headers   (save)
               _NumbersModel.__init__ on the saved file               (reopen)
               set_cell_border's  _row_heights.pop / _col_widths.pop  (set_borders)
   of the REPAIRED tree (fixes/C16-1-row-sizes.patch, fixes/C16-2-column-sizes.patch):
     - the persisted header size ("bucket") excludes borders; 0 means "table default";
     - a size set through the API is kept in _row_sizes/_col_sizes ("explicit") and
       overrides the bucket; it is what save writes;
     - _row_heights/_col_widths ("memo") is only a cache of the reported value
       floor(round(size) + widest border on one side / 2 + widest border on the other side / 2);
     - save writes explicit-or-bucket-or-0 for every line and never reads the memo.
   Rows and columns run the same code up to renaming (top/bottom vs left/right), so one
   model serves both; [b_lo] is the widest top (left) border of the line's cells and
   [b_hi] the widest bottom (right) one.

   Sizes are exact rationals (protobuf float32 / double values are dyadic rationals, border
   widths are decimal); Python's round() is round-half-even, math.floor is floor.
   Values set through the API are integers (documented type int).

   [Pinned] at the end is the same code before the repair, kept to show the two defects
   of the pinned tree as computed examples. *)
From Coq Require Import ZArith QArith Qround List Bool.
From NP Require Import Model.PyBase.
Import ListNotations.

(* ---------- Python numerics on exact rationals ---------- *)
(* round(x): nearest integer, ties to even *)
Definition py_round (q : Q) : Z :=
  let f := Qfloor q in
  match Qcompare (q - inject_Z f) (1 # 2) with
  | Lt => f
  | Gt => (f + 1)%Z
  | Eq => if Z.even f then f else (f + 1)%Z
  end.

Definition is_zero (q : Q) : bool := Z.eqb (Qnum q) 0.

(* ---------- one line of a table ---------- *)
Record line : Type := {
  bucket   : option Q;   (* HeaderStorageBucket.Header.size for this index, None: no header *)
  explicit : option Z;   (* _row_sizes[table][row]: set through the API since the file was read *)
  memo     : option Z;   (* _row_heights[table][row]: cache of the reported value *)
  b_lo     : Q;          (* max([0.0] + [cell.border.top.width ...]) *)
  b_hi     : Q           (* max([0.0] + [cell.border.bottom.width ...]) *)
}.

Definition with_memo (l : line) (m : option Z) : line :=
  {| bucket := bucket l; explicit := explicit l; memo := m; b_lo := b_lo l; b_hi := b_hi l |}.

(* bucket_map = {index: size}; bucket_map.update(_row_sizes); bucket_map.get(row, 0.0) *)
Definition stored (l : line) : Q :=
  match explicit l with
  | Some h => inject_Z h
  | None => match bucket l with Some s => s | None => 0%Q end
  end.

(* if size != 0.0: round(size) else: round(table_model.default_row_height) *)
Definition base (dflt : Q) (l : line) : Z :=
  if is_zero (stored l) then py_round dflt else py_round (stored l).

(* height += max_top / 2; height += max_bottom / 2; floor(height) *)
Definition compute (dflt : Q) (l : line) : Z :=
  Qfloor (inject_Z (base dflt l) + b_lo l / 2 + b_hi l / 2).

(* row_height(table, row) / col_width(table, col) *)
Definition observe (dflt : Q) (l : line) : Z * line :=
  match memo l with
  | Some m => (m, l)
  | None => let v := compute dflt l in (v, with_memo l (Some v))
  end.

(* row_height(table, row, h): _row_sizes[row] = h; _row_heights.pop(row) *)
Definition set_size (h : Z) (l : line) : line :=
  {| bucket := bucket l; explicit := Some h; memo := None; b_lo := b_lo l; b_hi := b_hi l |}.

(* set_cell_border on a cell of this line or of the neighbouring line: the
   widest borders become lo/hi and the cache entry is dropped *)
Definition set_borders (lo hi : Q) (l : line) : line :=
  {| bucket := bucket l; explicit := explicit l; memo := None; b_lo := lo; b_hi := hi |}.

(* recalculate_row_headers: a header is written for every line, size = stored; the
   open document goes on with its explicit sizes and its cache *)
Definition save (l : line) : line :=
  {| bucket := Some (stored l); explicit := explicit l; memo := memo l; b_lo := b_lo l; b_hi := b_hi l |}.

(* Document(path) on what the last save wrote (borders persist: C15) *)
Definition reopen (l : line) : line :=
  {| bucket := bucket l; explicit := None; memo := None; b_lo := b_lo l; b_hi := b_hi l |}.

Definition cycle (l : line) : line := reopen (save l).

Fixpoint iter {A} (n : nat) (f : A -> A) (x : A) : A :=
  match n with O => x | S k => iter k f (f x) end.

(* ---------- histories ---------- *)
Inductive op : Type :=
| OSet (h : Z)
| OObserve
| OBorders (lo hi : Q)
| OSave          (* save, keep working on the open document *)
| OCycle.        (* save and continue on the reopened file *)

Fixpoint run (dflt : Q) (ops : list op) (l : line) : list Z * line :=
  match ops with
  | [] => ([], l)
  | OSet h :: r => run dflt r (set_size h l)
  | OObserve :: r =>
      let '(v, l1) := observe dflt l in
      let '(vs, l2) := run dflt r l1 in (v :: vs, l2)
  | OBorders lo hi :: r => run dflt r (set_borders lo hi l)
  | OSave :: r => run dflt r (save l)
  | OCycle :: r => run dflt r (cycle l)
  end.

(* the same history with every save / reopen removed *)
Fixpoint erase (ops : list op) : list op :=
  match ops with
  | [] => []
  | OSave :: r => erase r
  | OCycle :: r => erase r
  | o :: r => o :: erase r
  end.

(* Table.height = floor(sum of row heights), Table.width = round(sum of column widths):
   both sums are sums of integers *)
Fixpoint observe_all (dflt : Q) (ls : list line) : list Z * list line :=
  match ls with
  | [] => ([], [])
  | l :: r => let '(v, l1) := observe dflt l in
              let '(vs, r1) := observe_all dflt r in (v :: vs, l1 :: r1)
  end.
Definition table_extent (dflt : Q) (ls : list line) : Z :=
  fold_left Z.add (fst (observe_all dflt ls)) 0%Z.

(* ---------- labels: single fields read and written by one accessor each ---------- *)
Record labels : Type := {
  sheet_name   : str;
  table_name   : str;
  name_enabled : bool;
  hdr_rows     : Z;
  hdr_cols     : Z;
  caption      : option (list str);  (* None: StandinCaptionArchive; Some texts: CaptionInfoArchive storage *)
  cap_hidden   : bool;
  pos_x        : Q;
  pos_y        : Q
}.

Definition s_Caption : str := [67;97;112;116;105;111;110].

(* model.caption_enabled / caption_text *)
Definition get_caption_enabled (b : labels) : bool :=
  match caption b with None => false | Some _ => negb (cap_hidden b) end.
Definition get_caption (b : labels) : str :=
  match caption b with None => s_Caption | Some [] => s_Caption | Some (t :: _) => t end.
Definition set_caption (t : str) (b : labels) : labels :=
  {| sheet_name := sheet_name b; table_name := table_name b; name_enabled := name_enabled b;
     hdr_rows := hdr_rows b; hdr_cols := hdr_cols b; caption := Some [t];
     cap_hidden := cap_hidden b; pos_x := pos_x b; pos_y := pos_y b |}.
Definition set_caption_enabled (e : bool) (b : labels) : labels :=
  {| sheet_name := sheet_name b; table_name := table_name b; name_enabled := name_enabled b;
     hdr_rows := hdr_rows b; hdr_cols := hdr_cols b; caption := caption b;
     cap_hidden := negb e; pos_x := pos_x b; pos_y := pos_y b |}.
Definition set_name_enabled (e : bool) (b : labels) : labels :=
  {| sheet_name := sheet_name b; table_name := table_name b; name_enabled := e;
     hdr_rows := hdr_rows b; hdr_cols := hdr_cols b; caption := caption b;
     cap_hidden := cap_hidden b; pos_x := pos_x b; pos_y := pos_y b |}.
Definition set_table_name (t : str) (b : labels) : labels :=
  {| sheet_name := sheet_name b; table_name := t; name_enabled := name_enabled b;
     hdr_rows := hdr_rows b; hdr_cols := hdr_cols b; caption := caption b;
     cap_hidden := cap_hidden b; pos_x := pos_x b; pos_y := pos_y b |}.
Definition set_sheet_name (t : str) (b : labels) : labels :=
  {| sheet_name := t; table_name := table_name b; name_enabled := name_enabled b;
     hdr_rows := hdr_rows b; hdr_cols := hdr_cols b; caption := caption b;
     cap_hidden := cap_hidden b; pos_x := pos_x b; pos_y := pos_y b |}.

Definition MAX_HEADER_COUNT : Z := 5.
(* Table.num_header_rows setter (document.py): n < 0, n > num_rows, n > MAX_HEADER_COUNT -> ValueError *)
Definition set_hdr_rows (num_rows n : Z) (b : labels) : result labels :=
  if (n <? 0)%Z || (num_rows <? n)%Z || (MAX_HEADER_COUNT <? n)%Z then Err ValueError
  else Ok {| sheet_name := sheet_name b; table_name := table_name b; name_enabled := name_enabled b;
             hdr_rows := n; hdr_cols := hdr_cols b; caption := caption b;
             cap_hidden := cap_hidden b; pos_x := pos_x b; pos_y := pos_y b |}.
Definition set_hdr_cols (num_cols n : Z) (b : labels) : result labels :=
  if (n <? 0)%Z || (num_cols <? n)%Z || (MAX_HEADER_COUNT <? n)%Z then Err ValueError
  else Ok {| sheet_name := sheet_name b; table_name := table_name b; name_enabled := name_enabled b;
             hdr_rows := hdr_rows b; hdr_cols := n; caption := caption b;
             cap_hidden := cap_hidden b; pos_x := pos_x b; pos_y := pos_y b |}.

(* everything Table/Sheet report about labels *)
Definition observe_labels (b : labels) : str * str * bool * Z * Z * str * bool * Q * Q :=
  (sheet_name b, table_name b, name_enabled b, hdr_rows b, hdr_cols b,
   get_caption b, get_caption_enabled b, pos_x b, pos_y b).

(* save serialises the archives the accessors write to; reopen parses them (pb_roundtrip) *)
Definition save_labels (b : labels) : labels := b.
Definition reopen_labels (b : labels) : labels := b.
Definition cycle_labels (b : labels) : labels := reopen_labels (save_labels b).

(* ---------- the pinned tree (before the repair), for the record ---------- *)
Module Pinned.
  (* row_height(h): memo = h.  Save of a ROW writes the memo, or 0.0 when the row was never
     queried or set.  Save of a COLUMN first calls col_width (memoising the value WITH the
     border allowance) and writes that. *)
  Definition set_size (h : Z) (l : line) : line := with_memo l (Some h).
  Definition stored (l : line) : Q := match bucket l with Some s => s | None => 0%Q end.
  Definition base (dflt : Q) (l : line) : Z :=
    if is_zero (stored l) then py_round dflt else py_round (stored l).
  Definition compute (dflt : Q) (l : line) : Z :=
    Qfloor (inject_Z (base dflt l) + b_lo l / 2 + b_hi l / 2).
  Definition observe (dflt : Q) (l : line) : Z * line :=
    match memo l with
    | Some m => (m, l)
    | None => let v := compute dflt l in (v, with_memo l (Some v))
    end.
  Definition save_row (l : line) : line :=
    {| bucket := Some (match memo l with Some m => inject_Z m | None => 0%Q end);
       explicit := None; memo := memo l; b_lo := b_lo l; b_hi := b_hi l |}.
  Definition save_col (dflt : Q) (l : line) : line :=
    let '(v, l1) := observe dflt l in
    {| bucket := Some (inject_Z v); explicit := None; memo := memo l1; b_lo := b_lo l; b_hi := b_hi l |}.
  Definition cycle_row (l : line) : line := reopen (save_row l).
  Definition cycle_col (dflt : Q) (l : line) : line := reopen (save_col dflt l).
End Pinned.
