(* Csv: executable mirror of
     numbers_parser._csv2numbers  Converter._read_csv / _transform_data / save, main (skeleton)
     numbers_parser._cat_numbers  cell_as_string, print_table (brief mode)
   and of CPython's csv module for the `excel` dialect (writer: QUOTE_MINIMAL, doublequote,
   "\r\n"; reader: the parse_process_char state machine incl. strict mode) as it is used on
   both ends.
   The code mirrored is the tree with fixes/C20-*.patch applied ([finite_only = true],
   file opened with newline=''); [finite_only = false] is the pinned coercion.
   External functions are Section variables:
     pyfloat : Python's float(str)  (None = ValueError)
     sig15   : sigfig.round(x, sigfigs=15)
     stored  : the NumberCell value read back after Document.save / Document(path)  (Err = save raises)
     frepr   : repr(float) as written by csv.writer                                   *)
From Coq Require Import ZArith NArith List Bool Lia.
From NP Require Import Model.PyBase.
Import ListNotations.
Open Scope N_scope.

Definition c_comma : chr := 44.
Definition c_quote : chr := 34.
Definition c_cr : chr := 13.
Definition c_lf : chr := 10.

(* ---------- str.isspace() / regex \s on str ---------- *)
Definition is_space (c : chr) : bool :=
  ((9 <=? c) && (c <=? 13)) || ((28 <=? c) && (c <=? 32)) || (c =? 133) || (c =? 160) ||
  (c =? 5760) || ((8192 <=? c) && (c <=? 8202)) || (c =? 8232) || (c =? 8233) ||
  (c =? 8239) || (c =? 8287) || (c =? 12288).

Fixpoint lstrip (s : str) : str :=
  match s with c :: r => if is_space c then lstrip r else s | [] => [] end.
Definition strip (s : str) : str := rev (lstrip (rev (lstrip s))).
(* re.sub(r"\s+", " ", s) *)
Fixpoint collapse (s : str) (in_run : bool) : str :=
  match s with
  | [] => []
  | c :: r => if is_space c then (if in_run then collapse r true else c_space :: collapse r true)
              else c :: collapse r false
  end.
Definition normalize_ws (s : str) : str := collapse (strip s) false.
(* v.replace(",", "") *)
Definition remove_commas (s : str) : str := filter (fun c => negb (c =? c_comma)) s.

(* ---------- the excel dialect writer (csv.writer(..., dialect="excel")) ---------- *)
Definition needs_quote (c : chr) : bool :=
  (c =? c_comma) || (c =? c_quote) || (c =? c_cr) || (c =? c_lf).
Fixpoint escape_quotes (f : str) : str :=
  match f with [] => [] | c :: r => if c =? c_quote then c_quote :: c_quote :: escape_quotes r else c :: escape_quotes r end.
Definition quoted (f : str) : str := c_quote :: escape_quotes f ++ [c_quote].
Definition write_field (f : str) : str := if existsb needs_quote f then quoted f else f.
(* a record whose text would be empty (one empty field) is written as "" *)
Definition write_row (row : list str) : str :=
  match row with
  | [[]] => [c_quote; c_quote; c_cr; c_lf]
  | _ => join [c_comma] (map write_field row) ++ [c_cr; c_lf]
  end.
Definition write_excel (rows : list (list str)) : str := concat (map write_row rows).

(* ---------- the excel dialect reader ---------- *)
Inductive mode : Type := StartRecord | StartField | InField | InQuoted | QuoteInQuoted | EatCRNL.

Record rstate : Type := mkR {
  r_mode : mode;
  r_cur : str;                 (* current field, reversed *)
  r_fields : list str;         (* fields of the current record, reversed *)
  r_recs : list (list str);    (* finished records, reversed *)
  r_pcr : bool;                (* the previous character was a CR: the line ends unless LF follows *)
  r_open : bool                (* characters seen since the last end of line *)
}.

Definition r_init : rstate := mkR StartRecord [] [] [] false false.

Definition save_field (st : rstate) (m : mode) : rstate :=
  mkR m [] (rev (r_cur st) :: r_fields st) (r_recs st) (r_pcr st) (r_open st).
Definition add_char (st : rstate) (c : chr) (m : mode) : rstate :=
  mkR m (c :: r_cur st) (r_fields st) (r_recs st) (r_pcr st) (r_open st).
Definition set_mode (st : rstate) (m : mode) : rstate :=
  mkR m (r_cur st) (r_fields st) (r_recs st) (r_pcr st) (r_open st).
(* Reader_iternext returns the record when a line ends in START_RECORD *)
Definition emit (st : rstate) : rstate :=
  mkR StartRecord [] [] (rev (r_fields st) :: r_recs st) (r_pcr st) (r_open st).

Definition is_nl (c : chr) : bool := (c =? c_lf) || (c =? c_cr).

(* parse_process_char for an ordinary character *)
Definition pchar (strict : bool) (st : rstate) (c : chr) : result rstate :=
  let start_field :=
    if is_nl c then Ok (save_field st EatCRNL)
    else if c =? c_quote then Ok (set_mode st InQuoted)
    else if c =? c_comma then Ok (save_field st StartField)
    else Ok (add_char st c InField) in
  match r_mode st with
  | StartRecord => if is_nl c then Ok (set_mode st EatCRNL) else start_field
  | StartField => start_field
  | InField =>
    if is_nl c then Ok (save_field st EatCRNL)
    else if c =? c_comma then Ok (save_field st StartField)
    else Ok (add_char st c InField)
  | InQuoted =>
    if c =? c_quote then Ok (set_mode st QuoteInQuoted) else Ok (add_char st c InQuoted)
  | QuoteInQuoted =>
    if c =? c_quote then Ok (add_char st c InQuoted)
    else if c =? c_comma then Ok (save_field st StartField)
    else if is_nl c then Ok (save_field st EatCRNL)
    else if strict then Err ValueError          (* csv.Error: delimiter expected after the quote character *)
    else Ok (add_char st c InField)
  | EatCRNL => if is_nl c then Ok st else Err ValueError   (* csv.Error: new-line character seen in unquoted field *)
  end.

(* parse_process_char for the end-of-line sentinel, followed by the return of the record *)
Definition peol (st : rstate) : rstate :=
  let st' := mkR (r_mode st) (r_cur st) (r_fields st) (r_recs st) false false in
  match r_mode st with
  | StartRecord => emit st'                    (* empty line: [] *)
  | StartField | InField | QuoteInQuoted => emit (save_field st' StartRecord)
  | InQuoted => st'
  | EatCRNL => emit st'
  end.

(* one character of the file; lines end after LF, after CR LF and after a CR not followed by LF *)
Definition on_char (strict : bool) (st : rstate) (c : chr) : result rstate :=
  let st1 := if r_pcr st && negb (c =? c_lf) then peol st else st in
  do st2 <- pchar strict st1 c ;
  if c =? c_lf then Ok (peol st2)
  else Ok (mkR (r_mode st2) (r_cur st2) (r_fields st2) (r_recs st2) (c =? c_cr) true).

Fixpoint feed (strict : bool) (st : rstate) (s : str) : result rstate :=
  match s with
  | [] => Ok st
  | c :: r => do st' <- on_char strict st c ; feed strict st' r
  end.

(* end of input *)
Definition finish (strict : bool) (st : rstate) : result (list (list str)) :=
  let st1 := if r_open st then peol st else st in
  match r_mode st1 with
  | StartRecord => Ok (rev (r_recs st1))
  | _ => if strict then Err ValueError          (* csv.Error: unexpected end of data *)
         else Ok (rev (r_recs (emit (save_field st1 StartRecord))))
  end.

Definition read_excel (strict : bool) (s : str) : result (list (list str)) :=
  do st <- feed strict r_init s ; finish strict st.

(* ---------- dict(zip(header, row)) ---------- *)
Inductive key : Type := KS (s : str) | KI (i : nat).
Definition key_eqb (a b : key) : bool :=
  match a, b with
  | KS x, KS y => str_eqb x y
  | KI x, KI y => Nat.eqb x y
  | _, _ => false
  end.
Fixpoint dict_set {V} (d : list (key * V)) (k : key) (v : V) : list (key * V) :=
  match d with
  | [] => [(k, v)]
  | (k', v') :: r => if key_eqb k' k then (k', v) :: r else (k', v') :: dict_set r k v
  end.
Definition dict_of_zip {V} (ks : list key) (vs : list V) : list (key * V) :=
  fold_left (fun d kv => dict_set d (fst kv) (snd kv)) (combine ks vs) [].

Inductive pyfloatval (F : Type) : Type := Finite (f : F) | Inf | NaN.
Arguments Finite {F} f.
Arguments Inf {F}.
Arguments NaN {F}.

Section Csv.
Variable F : Type.
Variable pyfloat : str -> option (pyfloatval F).
Variable sig15 : F -> F.
Variable stored : F -> result F.
Variable frepr : F -> str.

Inductive cell : Type := CText (s : str) | CNum (f : F) | CEmpty.

(* _transform_data, one value: optional whitespace normalisation of the text, float() of the
   ORIGINAL text without commas; a special float (inf/nan) raises later in table.write
   on the pinned tree and stays text on the repaired one *)
Definition coerce (finite_only ws : bool) (v : str) : result cell :=
  let shown := if ws then normalize_ws v else v in
  match pyfloat (remove_commas v) with
  | Some (Finite f) => Ok (CNum f)
  | Some _ => if finite_only then Ok (CText shown) else Err ValueError
  | None => Ok (CText shown)
  end.

Fixpoint mapM {A B} (f : A -> result B) (l : list A) : result (list B) :=
  match l with
  | [] => Ok []
  | x :: r => do y <- f x ; do ys <- mapM f r ; Ok (y :: ys)
  end.

Record flags : Type := mkFlags { no_header : bool; reverse : bool; whitespace : bool; finite_only : bool }.

(* _read_csv on the parsed rows: header = next(csvreader) *)
Definition split_header (fl : flags) (rows : list (list str)) : result (option (list str) * list (list str)) :=
  if no_header fl then Ok (None, rows)
  else match rows with
       | [] => Err (OtherCrash 1)               (* StopIteration escapes *)
       | h :: r => Ok (Some h, r)
       end.

(* _transform_data: rows become dicts keyed by the header *)
Definition transform (fl : flags) (header : option (list str)) (data : list (list str))
  : result (list (list cell)) :=
  do keys <- match header with
             | Some h => Ok (map KS h)
             | None => match data with
                       | [] => Err PopEmpty     (* self.data[0]: IndexError escapes *)
                       | r0 :: _ => Ok (map KI (seq 0 (length r0)))
                       end
             end ;
  let dicts := map (dict_of_zip keys) data in
  let dicts := if reverse fl then rev dicts else dicts in
  mapM (fun d => mapM (fun kv => coerce (finite_only fl) (whitespace fl) (snd kv)) d) dicts.

(* save: header row (as text) + row.values(); written cell by cell into a 2 x 2 table that
   grows as needed; cells never written stay empty *)
Definition pad_row (n : nat) (r : list cell) : list cell := r ++ repeat CEmpty (n - length r).
Definition table_of (rows : list (list cell)) : list (list cell) :=
  let ncols := fold_left Nat.max (map (@length cell) rows) 2%nat in
  map (pad_row ncols) (rows ++ repeat [] (2 - length rows)).

(* table.write (sigfig at Cell._from_value), Document.save, Document(path) *)
Definition store_cell (c : cell) : result cell :=
  match c with
  | CNum f => do g <- stored (sig15 f) ; Ok (CNum g)
  | _ => Ok c
  end.

Definition convert (fl : flags) (rows : list (list str)) : result (list (list cell)) :=
  do '(header, data) <- split_header fl rows ;
  do body <- transform fl header data ;
  let grid := match header with Some h => [map CText h] | None => [] end ++ body in
  mapM (mapM store_cell) (table_of grid).

(* cat-numbers -b: cell_as_string then csv.writer *)
Definition cell_as_string (c : cell) : str :=
  match c with
  | CNum g => frepr (sig15 g)
  | CText s => s
  | CEmpty => []
  end.
Definition export (t : list (list cell)) : list (list str) := map (map cell_as_string) t.

(* csv2numbers in.csv -o out.numbers ; cat-numbers -b out.numbers, on the text of the files *)
Definition roundtrip_text (fl : flags) (csv_text : str) : result str :=
  do rows <- read_excel true csv_text ;
  do t <- convert fl rows ;
  Ok (write_excel (export t)).

(* ---------- main: what reaches the user ---------- *)
Inductive csv_file : Type := Missing | Text (s : str).
Inductive outcome : Type :=
| Exit0
| Reported              (* one line on stderr, exit status 1 *)
| Crashed (e : pyexn).  (* an exception other than RuntimeError leaves main *)

Definition run_main (fl : flags) (file : csv_file) : outcome :=
  match file with
  | Missing => Reported                               (* FileNotFoundError -> RuntimeError *)
  | Text s =>
    match read_excel true s with
    | Err _ => Reported                               (* csv.Error -> RuntimeError *)
    | Ok rows => match convert fl rows with
                 | Ok _ => Exit0
                 | Err e => Crashed e                 (* only RuntimeError is caught *)
                 end
    end
  end.

End Csv.

Arguments CText {F} s.
Arguments CNum {F} f.
Arguments CEmpty {F}.
