(* Line protocol for the value-storage models (C01/C02/C06/C07):
     d128p <neg 0/1> <digits> <exp>           -> hex of 16 bytes    (pack_decimal; digit count = length of <digits>)
     d128u <hex>                              -> neg \t mantissa \t exponent
     row   <cell,cell,..  (hex or -)>         -> offsets csv \t storage hex   | !Error        (pack_row)
     split <wide 0/1> <ncols> <offsets csv> <storage hex> -> cell,cell,..                    (split_row)
     tiles <nrows>                            -> tile sizes csv                               (tiles_of)
     dl    <v|v|v..> (values as code point csv) -> keys csv \t read-back ok flags             (init + lookup_key*, lookup_value) *)
From Coq Require Import ZArith NArith List Bool.
From NP Require Import Model.PyBase Model.D128 Model.TileCodec Model.DataList.
Import ListNotations.
Open Scope N_scope.

Definition comma : list N := [44].
Definition is_dash (s : list N) : bool := match s with [45] => true | _ => false end.
Definition csv (s : list N) : list (list N) := match s with [] => [] | _ => split_on_fast 44 s [] end.
Definition show_cell (c : option (list N)) : list N := match c with Some b => match b with [] => [101] | _ => hex_of_bytes b end | None => [45] end.
Definition parse_cell (s : list N) : option (list N) :=
  if is_dash s then None else match s with [101] => Some [] | _ => Some (bytes_of_hex s) end.

Definition handle (line : list N) : list N :=
  match fields_fast line with
  | [[100;49;50;56;112]; ng; ds; ex] =>
      hex_of_bytes (pack_decimal (match ng with [49] => true | _ => false end) (digits_to_N ds) (length ds) (str_to_Z ex))
  | [[100;49;50;56;117]; h] =>
      let '(s, m, e) := unpack_decimal (bytes_of_hex h) in
      (if s then [49] else [48]) ++ [c_tab] ++ N_to_str m ++ [c_tab] ++ Z_to_str e
  | [[114;111;119]; cs] =>
      match pack_row (map parse_cell (csv cs)) with
      | Ok (offs, st) => join comma (map Z_to_str offs) ++ [c_tab] ++ hex_of_bytes st
      | Err e => show_err e
      end
  | [[115;112;108;105;116]; w; nc; offs; st] =>
      join comma (map show_cell (split_row (match w with [49] => true | _ => false end) (bytes_of_hex st)
                                           (map str_to_Z (csv offs)) (N.to_nat (digits_to_N nc))))
  | [[115;112;108;105;116]; w; nc; offs] =>
      join comma (map show_cell (split_row (match w with [49] => true | _ => false end) []
                                           (map str_to_Z (csv offs)) (N.to_nat (digits_to_N nc))))
  | [[116;105;108;101;115]; n] =>
      join comma (map (fun t => N_to_str (N.of_nat (length t))) (tiles_of (repeat [] (N.to_nat (digits_to_N n)))))
  | [[100;108]; vs] =>
      let vals := map (fun s => map digits_to_N (csv s)) (split_on_fast 124 vs []) in
      let step (acc : list Z * dl (list N)) v :=
          let '(k, d') := lookup_key (list N) str_eqb (snd acc) v in (fst acc ++ [k], d') in
      let '(ks, d) := fold_left step vals ([], init (list N) (add_table (list N) [])) in
      join comma (map Z_to_str ks) ++ [c_tab] ++
      map (fun kv => match lookup_value (list N) d (fst kv) with Ok v => if str_eqb v (snd kv) then 49 else 48 | Err _ => 33 end)
          (combine ks vals)
  | _ => [63]
  end.
