(* IWAIO: line-protocol helpers for the C05 / C17 entries.  Requests carry whole
   archive files as hex, so the helpers are linear and tail recursive
   (List.rev and PyBase.split_on are quadratic on long fields). *)
From Coq Require Import NArith List Bool.
From NP Require Import Model.PyBase.
Import ListNotations.
Open Scope N_scope.

Definition frev {A} (l : list A) : list A := rev_append l [].

Fixpoint fsplit (sep : chr) (s : str) (cur : str) (acc : list str) : list str :=
  match s with
  | [] => frev (frev cur :: acc)
  | c :: r => if c =? sep then fsplit sep r [] (frev cur :: acc) else fsplit sep r (c :: cur) acc
  end.
Definition split_fast (sep : chr) (s : str) : list str := fsplit sep s [] [].
Definition fields_fast (s : str) : list str := split_fast c_tab s.

Fixpoint unhex_acc (s : str) (acc : bytes) : bytes :=
  match s with
  | a :: b :: r => unhex_acc r ((hex_val a * 16 + hex_val b) :: acc)
  | _ => frev acc
  end.
Definition unhex (s : str) : bytes := unhex_acc s [].

Fixpoint hex_acc (b : bytes) (acc : str) : str :=
  match b with
  | [] => frev acc
  | x :: r => hex_acc r (hex_digit (x mod 16) :: hex_digit (x / 16) :: acc)
  end.
Definition hex (b : bytes) : str := hex_acc b [].

Definition c_comma : chr := 44.
Definition c_semi : chr := 59.
Definition c_bar : chr := 124.

(* zlib.adler32 *)
Definition adler32 (b : bytes) : N :=
  let '(a, s) := fold_left (fun st x => let '(a, s) := st in
                                        let a' := (a + x) mod 65521 in (a', (s + a') mod 65521)) b (1, 0) in
  s * 65536 + a.
Definition lenN' {A} (l : list A) : N := fold_left (fun n _ => n + 1) l 0.
Definition digest (b : bytes) : str := N_to_str (lenN' b) ++ [c_colon] ++ N_to_str (adler32 b).

(* ---------- tables: the graph of an external function on finitely many arguments ---------- *)
Definition unanswered : bytes := [117;110;97;110;115;119;101;114;101;100].
Definition parse_entry (s : str) : bytes * option bytes :=
  match split_fast c_colon s with
  | [k; v] => (unhex k, match v with [45] => None | _ => Some (unhex v) end)
  | _ => ([], None)
  end.
Definition parse_table (s : str) : list (bytes * option bytes) :=
  match s with [] => [] | _ => map parse_entry (split_fast c_comma s) end.
Fixpoint lookup {V} (t : list (bytes * V)) (k : bytes) : option V :=
  match t with
  | [] => None
  | (k', v) :: r => if str_eqb k' k then Some v else lookup r k
  end.
Definition parse_nums (s : str) : list N :=
  match s with [] => [] | _ => map digits_to_N (split_fast c_comma s) end.
Definition flag_of (s : str) : bool := match s with [49] => true | _ => false end.
Definition show_bool (b : bool) : str := if b then [49] else [48].
