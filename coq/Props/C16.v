(* C16 - table geometry and labels survive save and reopen unchanged.
   Property theorems only; each is closed by [exact] of a lemma from Proofs/SizesP.v.
   The model (Model/Sizes.v) mirrors the tree with fixes/C16-1-row-sizes.patch and
   fixes/C16-2-column-sizes.patch applied; the behaviour of the pinned tree is kept as
   [Pinned] and shown by the two examples at the end. *)
From Coq Require Import ZArith QArith Qround List Bool.
From NP Require Import Model.PyBase Model.Sizes Proofs.SizesP.
Import ListNotations.
Local Open Scope Q_scope.

(* History statement.  For ANY history of one row or column - sizes set, sizes queried,
   borders changed, save-and-continue, save-and-reopen, in any order and number - starting
   from a freshly opened document, the reported sizes are exactly those of the same
   history with every save and reopen removed, and so is the size finally persisted.
   (Covers: queried or not before saving, any number of cycles, set or inherited sizes,
   with or without borders.) *)
Theorem cycles_invisible : forall (dflt : Q) (ops : list op) (l : line),
  memo l = None ->
  fst (run dflt ops l) = fst (run dflt (erase ops) l) /\
  stored (snd (run dflt ops l)) = stored (snd (run dflt (erase ops) l)).
Proof. intros d ops l H. exact (cycles_invisible_lemma d ops l (fresh_memo_ok d l H)). Qed.
Print Assumptions cycles_invisible.

(* n save/reopen cycles do not change what a line reports - neither when the line was never
   queried before the saves nor when it was *)
Theorem size_cycle_fixpoint : forall (dflt : Q) (n : nat) (l : line),
  memo l = None ->
  fst (observe dflt (iter n cycle l)) = fst (observe dflt l) /\
  fst (observe dflt (iter n cycle (snd (observe dflt l)))) = fst (observe dflt l).
Proof. intros d n l H. exact (size_cycle_fixpoint_lemma d n l (fresh_memo_ok d l H)). Qed.
Print Assumptions size_cycle_fixpoint.

(* a non-zero size set through the API on a line whose two half border widths add up to
   less than one point is reported as set, at once and after any number of cycles *)
Theorem set_then_cycle : forall (dflt : Q) (n : nat) (h : Z) (l : line),
  h <> 0%Z -> 0 <= b_lo l / 2 + b_hi l / 2 -> b_lo l / 2 + b_hi l / 2 < 1 ->
  fst (observe dflt (set_size h l)) = h /\
  fst (observe dflt (iter n cycle (set_size h l))) = h.
Proof. exact set_then_cycle_lemma. Qed.
Print Assumptions set_then_cycle.

(* with any borders: what is reported after a set is the same before and after the cycles *)
Theorem set_then_cycle_general : forall (dflt : Q) (n : nat) (h : Z) (l : line),
  fst (observe dflt (iter n cycle (set_size h l))) = fst (observe dflt (set_size h l)).
Proof. exact set_then_cycle_general_lemma. Qed.
Print Assumptions set_then_cycle_general.

(* the border allowance is never folded into the persisted size: a save writes exactly the
   stored size, and every later cycle keeps it *)
Theorem borders_do_not_accumulate : forall (n : nat) (l : line),
  stored (save l) = stored l /\ stored (iter n cycle l) = stored l /\
  bucket (save l) = Some (stored l) /\ (forall k, bucket (iter (S k) cycle l) = Some (stored l)).
Proof. exact borders_do_not_accumulate_lemma. Qed.
Print Assumptions borders_do_not_accumulate.

(* the cache never holds anything but the value that would be computed, along every history *)
Theorem cache_is_consistent : forall (dflt : Q) (ops : list op) (l : line),
  memo l = None -> memo_ok dflt (snd (run dflt ops l)).
Proof. intros d ops l H. exact (run_memo_ok d ops l (fresh_memo_ok d l H)). Qed.
Print Assumptions cache_is_consistent.

(* Table.height / Table.width (sums over the lines) are unchanged by n cycles *)
Theorem extent_cycle : forall (dflt : Q) (n : nat) (ls : list line),
  Forall (fun l => memo l = None) ls ->
  table_extent dflt (map (iter n cycle) ls) = table_extent dflt ls.
Proof.
  intros d n ls H. apply extent_cycle_lemma.
  apply Forall_impl with (2 := H). intros l Hl. exact (fresh_memo_ok d l Hl).
Qed.
Print Assumptions extent_cycle.

(* names, header counts, caption text and visibility, name visibility, coordinates: one field,
   one accessor each; the model's save/reopen is the identity on them (their persistence through
   protobuf is established by the correspondence histories, not by this theorem) *)
Theorem labels_cycle : forall (n : nat) (b : labels),
  observe_labels (iter n cycle_labels b) = observe_labels b.
Proof. exact labels_cycle_lemma. Qed.
Print Assumptions labels_cycle.

(* ---- non-vacuity and the pinned tree ---- *)
(* a row stored at 100 with a 3pt border above and a 0.35pt border below, set to 41, cycled
   twice with a query in between: 41 + floor(1.5 + 0.175) = 42 throughout; 41 is persisted *)
Example c16_example :
  run (20 # 1) [OObserve; OSet 41; OObserve; OCycle; OObserve; OCycle; OSave; OObserve]
      {| bucket := Some (100 # 1); explicit := None; memo := None; b_lo := 3 # 1; b_hi := 35 # 100 |}
  = ([101; 42; 42; 42]%Z,
     {| bucket := Some (41 # 1); explicit := None; memo := Some 42%Z; b_lo := 3 # 1; b_hi := 35 # 100 |}).
Proof. vm_compute. reflexivity. Qed.

(* the pinned tree: a never-queried row stored at 100 comes back at the default 20 ... *)
Example pinned_rows_reset :
  fst (Pinned.observe (20 # 1) pinned_row_witness) = 100%Z /\
  fst (Pinned.observe (20 # 1) (Pinned.cycle_row pinned_row_witness)) = 20%Z.
Proof. exact pinned_rows_reset. Qed.

(* ... and a column with an 8pt border grows by 4 per cycle; the repaired code keeps both *)
Example pinned_cols_drift :
  fst (Pinned.observe (98 # 1) pinned_col_witness) = 102%Z /\
  fst (Pinned.observe (98 # 1) (Pinned.cycle_col (98 # 1) pinned_col_witness)) = 106%Z /\
  fst (Pinned.observe (98 # 1) (Pinned.cycle_col (98 # 1) (Pinned.cycle_col (98 # 1) pinned_col_witness))) = 110%Z.
Proof. exact pinned_cols_drift. Qed.

Example repaired_witnesses :
  fst (observe (20 # 1) (cycle pinned_row_witness)) = 100%Z /\
  fst (observe (98 # 1) (cycle (cycle pinned_col_witness))) = 102%Z.
Proof. exact repaired_witnesses. Qed.
