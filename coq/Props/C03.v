(* C03 - any edit history leaves each table equal to a plain grid, before and after save.
   Property theorems only; each is closed by [exact] of a lemma from Proofs/.
   [vals t] is the plain two-dimensional grid of values a table holds; the p_* functions are the
   edits of a plain list-of-lists grid (Proofs/GridP.v). *)
From Coq Require Import ZArith NArith List Bool.
From NP Require Import Gen.GenConsts Model.PyBase Model.Grid Proofs.GridP Proofs.GridPosP.
Import ListNotations.
Open Scope Z_scope.

(* invariant, for every reachable state: the reported dimensions are the dimensions of the data and
   every row has the reported number of columns (any history, any initial shape; operations outside
   the property's domain - negative counts, over-deletion - are skipped, raising ones change nothing) *)
Theorem grid_wf_reachable : forall nr nc ops, 0 <= nr -> 0 <= nc -> wf (run (new_table nr nc) ops).
Proof. exact grid_wf_reachable_lemma. Qed.
Print Assumptions grid_wf_reachable.

(* refinement, operation by operation: values and dimensions are those of the plain grid *)
Theorem add_row_refines : forall t n s t', 0 <= n -> 0 <= ncols t ->
  add_row t n s None = Ok t' ->
  vals t' = p_add_row (vals t) (ncols t) n (match s with Some x => x | None => nrows t end) None
  /\ nrows t' = nrows t + n /\ ncols t' = ncols t.
Proof. exact add_row_refines. Qed.
Print Assumptions add_row_refines.

Theorem add_row_default_refines : forall t n s v t', 0 <= n -> wf t ->
  add_row t n s (Some v) = Ok t' ->
  let s' := match s with Some x => x | None => nrows t end in
  wf t' /\ nrows t' = nrows t + n /\ ncols t' = ncols t /\
  vals t' = fold_left (fun g p => p_set g (fst p) (snd p) (Some v)) (new_positions s' n (ncols t))
                      (p_add_row (vals t) (ncols t) n s' None).
Proof. exact add_row_default_refines. Qed.
Print Assumptions add_row_default_refines.

Theorem add_column_refines : forall t n s t', 0 <= n -> wf t ->
  add_column t n s None = Ok t' ->
  vals t' = p_add_col (vals t) n (match s with Some x => x | None => ncols t end) None
  /\ nrows t' = nrows t /\ ncols t' = ncols t + n.
Proof. exact add_column_refines. Qed.
Print Assumptions add_column_refines.

Theorem add_column_default_refines : forall t n s v t', 0 <= n -> wf t ->
  add_column t n s (Some v) = Ok t' ->
  let s' := match s with Some x => x | None => ncols t end in
  nrows t' = nrows t /\ ncols t' = ncols t + n /\
  vals t' = map (fun row => fold_left (fun rw c => set_nth rw (Z.to_nat c) (Some v)) (zrange s' (s' + n))
                                      (insert_at row s' (repeat None (Z.to_nat n)))) (vals t).
Proof. exact add_column_default_refines. Qed.
Print Assumptions add_column_default_refines.

(* on the domain the repaired code and the model share: 0 <= n <= what the table has from the start index
   (delete_row(0) used to wipe the table - see known_findings.d/C03.json; a longer count is cut short by the code) *)
Theorem delete_row_refines : forall t n s t', del_in_domain (nrows t) n s -> delete_row t n s = Ok t' ->
  vals t' = p_del_row (vals t) n s /\ nrows t' = nrows t - n /\ ncols t' = ncols t.
Proof. exact delete_row_refines_dom. Qed.
Print Assumptions delete_row_refines.

Theorem delete_column_refines : forall t n s t', del_in_domain (ncols t) n s -> delete_column t n s = Ok t' ->
  vals t' = p_del_col (vals t) n s /\ nrows t' = nrows t /\ ncols t' = ncols t - n.
Proof. exact delete_column_refines_dom. Qed.
Print Assumptions delete_column_refines.

(* a write inside the documented limits grows the table to exactly the required size, fills the
   growth with empty cells and puts the value at (r, c) *)
Theorem write_refines : forall t r c v, wf t -> 0 <= r < MAX_ROW_COUNT -> 0 <= c < MAX_COL_COUNT ->
  exists t', write t r c v = Ok t' /\ wf t' /\
    nrows t' = Z.max (nrows t) (r + 1) /\ ncols t' = Z.max (ncols t) (c + 1) /\
    vals t' = p_set (p_grow (vals t) (ncols t) (Z.to_nat (r + 1 - nrows t)) (Z.to_nat (c + 1 - ncols t))) r c (Some v).
Proof. exact write_refines. Qed.
Print Assumptions write_refines.

(* error outcomes: the structural edits either succeed or raise IndexError, and a start index outside
   the table is always refused *)
Theorem structural_errors : forall t n s,
  (forall d, (exists t', add_row t n s d = Ok t') \/ add_row t n s d = Err IndexError) /\
  (forall d, (exists t', add_column t n s d = Ok t') \/ add_column t n s d = Err IndexError) /\
  ((exists t', delete_row t n s = Ok t') \/ delete_row t n s = Err IndexError) /\
  ((exists t', delete_column t n s = Ok t') \/ delete_column t n s = Err IndexError).
Proof. exact structural_errors. Qed.
Print Assumptions structural_errors.

(* edits to one table never show up in another: the document is a list of tables and an edit replaces one entry *)
Theorem frame : forall (ts : list table) i j x, i <> j -> nth_error (set_nth ts i x) j = nth_error ts j.
Proof. exact (@set_nth_other table). Qed.
Print Assumptions frame.

Theorem limits_are_source_constants :
  GenConsts.MAX_ROW_COUNT = Grid.MAX_ROW_COUNT /\ GenConsts.MAX_COL_COUNT = Grid.MAX_COL_COUNT.
Proof. split; reflexivity. Qed.
Print Assumptions limits_are_source_constants.

(* every cell reports its own row and column as its position, in every reachable state *)
Theorem positions_reachable : forall nr nc ops, 0 <= nr -> 0 <= nc -> pos_ok (run (new_table nr nc) ops).
Proof. exact positions_reachable_lemma. Qed.
Print Assumptions positions_reachable.

Theorem positions_pointwise : forall t i j row x, pos_ok t ->
  nth_error (data t) i = Some row -> nth_error row j = Some x -> crow x = Z.of_nat i /\ ccol x = Z.of_nat j.
Proof. exact pos_ok_pointwise. Qed.
Print Assumptions positions_pointwise.

(* the saved file reopens to the same grid (values by C01's storage round trip; here: the table-level reload
   rebuilds every cell at its position with its value), cells again reporting their own positions *)
Theorem save_reopen_grid : forall nr nc ops,
  let t := run (new_table nr nc) ops in
  0 <= nr -> 0 <= nc ->
  vals (reopen t) = vals t /\ pos_ok (reopen t) /\ nrows (reopen t) = nrows t /\ ncols (reopen t) = ncols t.
Proof. exact save_reopen_grid_lemma. Qed.
Print Assumptions save_reopen_grid.

(* non-vacuity *)
Example history_example :
  let t := run (new_table 2 2) [OWrite 3 0 7; OAddCol 2 (Some 1) (Some 9); ODelRow 1 (Some 0); OAddRow 1 None None] in
  wf t /\ vals t = [[None; Some 9; Some 9; None]; [None; Some 9; Some 9; None];
                    [Some 7; Some 9; Some 9; None]; [None; None; None; None]].
Proof. split; [apply grid_wf_reachable_lemma; discriminate|vm_compute; reflexivity]. Qed.
