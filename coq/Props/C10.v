(* C10 - A1-notation conversion functions are mutually inverse bijections.
   Property theorems only; each is closed by [exact] of a lemma from Proofs/. *)
From Coq Require Import ZArith NArith List Bool PrimFloat.
From NP Require Import Gen.GenA1 Model.PyBase Model.A1 Proofs.A1P Proofs.A1Float Proofs.A1Gen.
Import ListNotations.

(* row/column -> A1 text -> row/column is the identity, with or without '$'
   markers; rows unbounded, columns on the decoder's three-letter domain
   (18278 = 26 + 26^2 + 26^3). *)
Theorem a1_roundtrip : forall (r c : Z) (ra ca : bool),
  (0 <= r)%Z -> (0 <= c < 18278)%Z ->
  bind (xl_rowcol_to_cell r c ra ca) xl_cell_to_rowcol = Ok (r, c).
Proof. exact a1_roundtrip_lemma. Qed.
Print Assumptions a1_roundtrip.

(* column naming is the bijective base-26 numbering: no gaps, no repeats (unbounded) *)
Theorem col_name_left_inverse : forall c : Z, (0 <= c)%Z ->
  name_to_col (col_letters (Z.to_N c)) = c.
Proof. exact col_name_left_inverse. Qed.
Print Assumptions col_name_left_inverse.

Theorem col_name_right_inverse : forall s : list N,
  Forall (fun ch => (65 <= ch <= 90)%N) s -> s <> [] ->
  (0 <= name_to_col s)%Z /\ col_letters (Z.to_N (name_to_col s)) = s.
Proof. exact col_name_right_inverse. Qed.
Print Assumptions col_name_right_inverse.

(* strictly order preserving: A..Z, AA..ZZ, AAA.. in shortlex order (unbounded) *)
Theorem col_name_order : forall a b : N, (a < b)%N ->
  shortlex_lt (col_letters a) (col_letters b) = true.
Proof. exact col_name_order_lemma. Qed.
Print Assumptions col_name_order.

(* a range collapses to a single reference exactly when both corners coincide *)
Theorem range_collapse : forall r1 c1 r2 c2 : Z,
  (0 <= r1)%Z -> (0 <= r2)%Z -> (0 <= c1 < 18278)%Z -> (0 <= c2 < 18278)%Z ->
  exists s, xl_range r1 c1 r2 c2 = Ok s /\ (has_colon s = false <-> (r1, c1) = (r2, c2)).
Proof. exact range_collapse_lemma. Qed.
Print Assumptions range_collapse.

(* negative coordinates are rejected with IndexError rather than producing a name *)
Theorem negative_rejected : forall (r c : Z) (ra ca : bool),
  (r < 0 \/ c < 0)%Z -> xl_rowcol_to_cell r c ra ca = Err IndexError.
Proof. exact negative_rejected_lemma. Qed.
Print Assumptions negative_rejected.

Theorem range_negative_rejected : forall r1 c1 r2 c2 : Z,
  (r1 < 0 \/ c1 < 0 \/ r2 < 0 \/ c2 < 0)%Z -> xl_range r1 c1 r2 c2 = Err IndexError.
Proof. exact range_negative_rejected_lemma. Qed.
Print Assumptions range_negative_rejected.

Theorem range_corners : forall r1 c1 r2 c2 : Z,
  (0 <= r1)%Z -> (0 <= r2)%Z -> (0 <= c1 < 18278)%Z -> (0 <= c2 < 18278)%Z -> (r1, c1) <> (r2, c2) ->
  exists a b, xl_range r1 c1 r2 c2 = Ok (a ++ [c_colon] ++ b) /\
              xl_cell_to_rowcol a = Ok (r1, c1) /\ xl_cell_to_rowcol b = Ok (r2, c2).
Proof. exact range_corners_lemma. Qed.
Print Assumptions range_corners.

Theorem negative_col_rejected : forall (c : Z) (ca : bool),
  (c < 0)%Z -> xl_col_to_name c ca = Err IndexError.
Proof. exact negative_col_rejected_lemma. Qed.
Print Assumptions negative_col_rejected.

(* the tokenizer's second copy of the column decoder agrees with the first *)
Theorem second_decoder_agrees : forall s, col_to_index s = name_to_col s.
Proof. exact col_to_index_agrees. Qed.
Print Assumptions second_decoder_agrees.

(* the binary64 division the code performs equals the exact quotient on the column domain *)
Theorem float_division_exact : forall c : Z, (0 <= c <= 18278)%Z ->
  trunc (PrimFloat.div (f_of_Z c) 26%float) = (c / 26)%Z.
Proof. exact float_division_exact_lemma. Qed.
Print Assumptions float_division_exact.

(* translator tie: the regex sources in /repo are the ones the scanners mirror *)
Theorem gen_a1_regexes :
  GenA1.range_parts_pattern = A1.modelled_range_parts /\
  GenA1.col_parts_pattern = A1.modelled_col_parts /\
  GenA1.range_parts_flags = 32%N.
Proof. exact gen_a1_regexes. Qed.
Print Assumptions gen_a1_regexes.

(* non-vacuity: concrete instances *)
Example a1_example :
  xl_rowcol_to_cell 999999 18277 true false = Ok [90;90;90;36;49;48;48;48;48;48;48]%N /\
  xl_cell_to_rowcol [90;90;90;36;49;48;48;48;48;48;48]%N = Ok (999999, 18277)%Z /\
  xl_range 0 0 1 27 = Ok [65;49;58;65;66;50]%N.
Proof. vm_compute. repeat split. Qed.
