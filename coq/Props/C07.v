(* C07 - every saved package is structurally sound and referentially closed.
   Verified-checker pattern: [wf_package D Dd p] (Model/Package.v) states the property on the abstraction of a saved
   package that harness/c07_abstract.py reads out of the zip; [validate] is the executable checker run on every
   generated package.  Universally proved: the checker decides the specification; ObjectStore's identifier
   allocation; the tile/row-info/record layout written for ANY grid; the merge-map packing.
   Property theorems only; each is closed by [exact] of a lemma from Proofs/. *)
From Coq Require Import ZArith NArith List Bool Sorted.
From NP Require Import Model.PyBase Model.CellRecord Model.TileCodec Model.Package
  Proofs.CellRecordP Proofs.TileCodecP Proofs.PackageP Proofs.PackageTilesP.
From NP Require Model.Grid Proofs.MergeP Proofs.PackageMergeP.
Notation pack16 := NP.Model.Grid.pack16 (only parsing).
Import ListNotations.

(* --- the checker decides the specification: no defect reported <-> the package is well formed --- *)
Theorem validate_sound_complete : forall D Dd p, validate D Dd p = [] <-> wf_package D Dd p.
Proof. exact validate_sound_complete_lemma. Qed.
Print Assumptions validate_sound_complete.

(* allowing more already-unresolved references only weakens the specification *)
Theorem wf_weaken : forall D D' Dd Dd' p, incl D D' -> incl Dd Dd' -> wf_package D Dd p -> wf_package D' Dd' p.
Proof. exact wf_weaken_lemma. Qed.
Print Assumptions wf_weaken.

(* --- identifiers: for ALL histories of new_message_id / create_object_from_dict on ANY loaded document the
       identifiers handed out are pairwise distinct, increasing, absent from the document, above every loaded
       identifier and not above _max_id, which last_object_identifier follows --- *)
Theorem fresh_ids : forall keys last ops s0 is s,
  store_init keys last = Ok s0 -> run_ops ops s0 = Ok (is, s) ->
  NoDup is /\ StronglySorted N.lt is /\
  Forall (fun i => ~ In i keys /\ (list_max keys < i)%N /\ (i <= s_max s)%N) is /\
  (is <> [] -> s_last s = s_max s) /\ (is = [] -> s_last s = last) /\
  s_max s = (ceil_million (list_max keys) + N.of_nat (length is))%N /\ incl keys (s_keys s).
Proof. exact fresh_ids_lemma. Qed.
Print Assumptions fresh_ids.

(* --- tiles: (rows >> 8) + 1 tiles of at most 256 rows, tile_row_index 0,1,2.. , all rows accounted for (TileCodecP) --- *)
Theorem tiles_shape : forall rows tiles, encode_table rows = Ok tiles ->
  length tiles = S (length rows / 256) /\
  Forall (fun t => (length t <= 256)%nat /\ map tile_row_index t = seq 0 (length t)) tiles /\
  length (concat tiles) = length rows.
Proof. exact tiles_wf_lemma. Qed.
Print Assumptions tiles_shape.

(* ... and, abstracted exactly as the harness abstracts a saved tile, the written tiles satisfy the table part of the
   specification for EVERY rectangular grid of records: offsets table with one entry per column, every present record
   inside its buffer, 4-byte aligned, ordered by column and pairwise disjoint, cell_count = number of records *)
Theorem tiles_wf : forall id ncols rows tiles,
  rect ncols rows -> Forall records_ok rows -> encode_table rows = Ok tiles ->
  wf_table (abs_table id (length rows) ncols tiles).
Proof. exact tiles_wf_package_lemma. Qed.
Print Assumptions tiles_wf.

(* a record written by Cell._to_buffer (CellRecord.encode, C04) is exactly as long as its flags word announces *)
Theorem record_length_matches_flags : forall c, wf_cell c = true -> record_ok (CellRecord.encode c).
Proof. exact encode_record_ok. Qed.
Print Assumptions record_length_matches_flags.

(* ... hence for every grid of well-formed cells (None = merged placeholder, no record) *)
Theorem tiles_wf_cells : forall id ncols (grid : list (list (option cell))) tiles,
  Forall (fun row => length row = ncols /\
                     Forall (fun c => match c with Some x => wf_cell x = true | None => True end) row) grid ->
  encode_table (map encode_cells grid) = Ok tiles ->
  wf_table (abs_table id (length grid) ncols tiles).
Proof. exact tiles_wf_cells_lemma. Qed.
Print Assumptions tiles_wf_cells.

(* the checker accepts what the codec writes (composition of the two halves) *)
Theorem validate_accepts_written_tiles : forall id ncols rows tiles,
  rect ncols rows -> Forall records_ok rows -> encode_table rows = Ok tiles ->
  validate_tbl (abs_table id (length rows) ncols tiles) = [].
Proof. intros id ncols rows tiles H1 H2 H3. apply validate_tbl_iff. exact (tiles_wf_package_lemma id ncols rows tiles H1 H2 H3). Qed.
Print Assumptions validate_accepts_written_tiles.

(* --- merge map: packedData fields fit 32 bits and unpack to the rectangle while all four values fit 16 bits --- *)
Theorem merge_map_wf : forall r c h w,
  (0 <= r < 65536 -> 0 <= c < 65536 -> 0 <= h < 65536 -> 0 <= w < 65536 ->
  0 <= pack16 c r < 2 ^ 32 /\ 0 <= pack16 w h < 2 ^ 32 /\
  Z.shiftr (pack16 c r) 16 = c /\ Z.land (pack16 c r) 65535 = r /\
  Z.shiftr (pack16 w h) 16 = w /\ Z.land (pack16 w h) 65535 = h)%Z.
Proof. exact NP.Proofs.PackageMergeP.merge_map_wf_lemma. Qed.
Print Assumptions merge_map_wf.

Theorem merge_origins_distinct : forall r c r' c',
  (0 <= r < 65536 -> 0 <= c -> 0 <= r' < 65536 -> 0 <= c' -> pack16 c r = pack16 c' r' -> r = r' /\ c = c')%Z.
Proof. exact NP.Proofs.PackageMergeP.merge_origin_injective. Qed.
Print Assumptions merge_origins_distinct.

(* --- referential closure for all histories is CHECKED per package, not proved.  Known finding (open):
       add_table writes TableModelArchive.category_owner = Reference(identifier 0), which resolves to no object.
       Excerpt of the abstraction of Document().sheets[0].add_table() saved: --- *)
Definition add_table_excerpt : package :=
  {| p_last := 1000020;
     p_members := [ {| m_name := index_prefix ++ [67;97;108;99] ++ iwa_suffix; m_added := false |} ];
     p_components := []; p_datas := [];
     p_objects := [ {| o_id := 904712; o_file := 0; o_type := 6000; o_added := false; o_touched := false;
                       o_refs := []; o_hrefs := []; o_drefs := []; o_hdrefs := [] |};
                    {| o_id := 1000002; o_file := 0; o_type := 6001; o_added := true; o_touched := true;
                       o_refs := [904712; 0]; o_hrefs := [904712; 0]; o_drefs := []; o_hdrefs := [] |} ];
     p_tables := [] |}.

Theorem closure_refuted : exists p,
  validate [] [] p = [DRef 1000002 0; DHRef 1000002 0] /\ ~ wf_package [] [] p.
Proof.
  exists add_table_excerpt. split; [vm_compute; reflexivity|].
  intros H. apply validate_sound_complete_lemma in H. vm_compute in H. discriminate.
Qed.
Print Assumptions closure_refuted.

(* with exactly the null category_owner references allowed (K), the checker still decides the specification; the
   harness runs it with K = the signature's references on every package and requires no defect *)
Theorem closure_partial : forall D K Dd p, validate (D ++ K) Dd p = [] -> wf_package (D ++ K) Dd p.
Proof. intros D K Dd p. apply validate_sound_complete_lemma. Qed.
Print Assumptions closure_partial.

(* --- non-vacuity --- *)
Example excerpt_ok_modulo_finding : validate ([] ++ [(1000002, 0)])%N [] add_table_excerpt = [].
Proof. vm_compute. reflexivity. Qed.

Example alloc_after_default_document :
  (do s0 <- store_init [1; 2; 907355]%N 907355%N ; run_ops [OpCreate; OpNewId; OpCreate] s0) =
  Ok ([1000001; 1000002; 1000003]%N,
      {| s_keys := [1; 2; 907355; 1000001; 1000003]%N; s_max := 1000003%N; s_last := 1000003%N |}).
Proof. vm_compute. reflexivity. Qed.

(* one empty-cell record (12 bytes, flags 0) and a text record with a string id (flags 8): a 2-column, 2-row table *)
Definition rec_empty : list N := [5;0;0;0;0;0;0;0;0;0;0;0]%N.
Definition rec_text : list N := [5;3;0;0;0;0;0;0;8;0;0;0;1;0;0;0]%N.
Example small_table_checked :
  match encode_table [[Some rec_empty; Some rec_text]; [None; Some rec_empty]] with
  | Ok tiles => Some (validate_tbl (abs_table 7 2 2 tiles))
  | Err _ => None
  end = Some [].
Proof. vm_compute. reflexivity. Qed.
Example small_table_hypotheses :
  rect 2 [[Some rec_empty; Some rec_text]; [None; Some rec_empty]] /\
  Forall records_ok [[Some rec_empty; Some rec_text]; [None; Some rec_empty]].
Proof.
  assert (He : record_ok rec_empty) by (split; [apply le_n|vm_compute; reflexivity]).
  assert (Ht : record_ok rec_text) by (split; [do 4 apply le_S; apply le_n|vm_compute; reflexivity]).
  split.
  - repeat constructor.
  - repeat constructor; assumption.
Qed.

(* a row-info whose second offset points into the first record is reported *)
Example overlapping_records_reported :
  validate_tbl {| tb_id := 7; tb_nrows := 1; tb_ncols := 2;
                  tb_tiles := [ {| t_id := 0; t_numrows := 1;
                                   t_rows := [ {| r_index := 0; r_count := 2; r_wide := true; r_slen := 24;
                                                  r_offs := [0; 2]%Z; r_flags := [0; 0]%N |} ] |} ] |}%N
  = [TRecords 7 0 0]%N.
Proof. vm_compute. reflexivity. Qed.
