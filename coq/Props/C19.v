(* C19 - Sheet and table collections: unique names, consistent lookup, stable order.
   Property theorems only; each is closed by [exact] of a lemma from Proofs/NamesP.v.
   The model (Model/Names.v) mirrors containers.ItemsList, Document.add_sheet,
   Sheet.add_table/_add_table and the name setters of the tree with
   fixes/C19-itemslist-negative-index.patch applied.
   [lower] is Python's str.lower(); "equal ignoring case" = equal images under [lower].
   [lower_ascii lower]: on ASCII-only strings str.lower() is the character-wise ASCII lowering.
   All statements hold for every document state, hence at every step of every history. *)
From Coq Require Import ZArith NArith List Bool.
From NP Require Import Model.PyBase Model.Names Proofs.NamesP.
Import ListNotations.

(* every successful add step appends one item whose name is not equal, ignoring case, to
   the name of any sibling present before the step (and is exactly the requested name when
   one was given); holds in every state, so in particular after arbitrary renames *)
Theorem add_never_duplicates : forall lower, lower_ascii lower ->
  forall (d : doc) (o : op) (d' : doc),
  step lower d o = (d', Ok tt) -> add_fresh lower d o d'.
Proof. exact add_never_duplicates_lemma. Qed.
Print Assumptions add_never_duplicates.

(* ... at every step of every history *)
Theorem add_never_duplicates_history : forall lower, lower_ascii lower ->
  forall (d0 : doc) (h : list op) (o : op) (d' : doc),
  step lower (run lower d0 h) o = (d', Ok tt) -> add_fresh lower (run lower d0 h) o d'.
Proof. exact add_never_duplicates_history_lemma. Qed.
Print Assumptions add_never_duplicates_history.

(* histories of adds (named, unnamed, refused duplicates) keep all sibling names pairwise
   different ignoring case *)
Theorem adds_keep_names_unique : forall lower, lower_ascii lower ->
  forall (h : list op) (d : doc),
  forallb is_add h = true -> doc_unique lower d -> doc_unique lower (run lower d h).
Proof. exact adds_keep_unique_lemma. Qed.
Print Assumptions adds_keep_names_unique.

(* the `while f"{prefix} {n}" in items` loop terminates within its fuel [length items + 1]
   (pigeonhole) and returns the first free number *)
Theorem auto_loop_fuel_sufficient : forall lower (it : list (list N)) (p : list N),
  (forall a b, lower (auto_name p a) = lower (auto_name p b) -> a = b) ->
  exists m, auto_loop lower (length it + 1) it p 1 = Ok m /\
    (1 <= m <= N.of_nat (length it) + 1)%N /\
    contains lower it (auto_name p m) = false /\
    forall j, (1 <= j < m)%N -> contains lower it (auto_name p j) = true.
Proof. exact auto_loop_total. Qed.
Print Assumptions auto_loop_fuel_sufficient.

(* add_sheet() without a name: succeeds, appends "Sheet m", fresh ignoring case, m the
   smallest number whose name is free *)
Theorem auto_name_fresh : forall lower, lower_ascii lower ->
  forall (d : doc) (t : list N), wf_doc d ->
  exists m, step lower d (AddSheet None t) = (d ++ [(auto_name Sheet_P m, [t])], Ok tt) /\
    (1 <= m <= N.of_nat (length d) + 1)%N /\
    ci_fresh lower (auto_name Sheet_P m) (sheet_names d) /\
    forall j, (1 <= j < m)%N -> ~ ci_fresh lower (auto_name Sheet_P j) (sheet_names d).
Proof. exact auto_sheet_lemma. Qed.
Print Assumptions auto_name_fresh.

(* sheet.add_table() without a name: the same for "Table m" among the sheet's tables *)
Theorem auto_table_name_fresh : forall lower, lower_ascii lower ->
  forall (d : doc) (si : Z) (i : nat) (s : sheet),
  get_idx (length d) si = Ok i -> nth_error d i = Some s -> snd s <> [] ->
  exists m, step lower d (AddTable si None) =
              (replace_at d i (fst s, snd s ++ [auto_name Table_P m]), Ok tt) /\
    (1 <= m <= N.of_nat (length (snd s)) + 1)%N /\
    ci_fresh lower (auto_name Table_P m) (snd s) /\
    forall j, (1 <= j < m)%N -> ~ ci_fresh lower (auto_name Table_P j) (snd s).
Proof. exact auto_table_lemma. Qed.
Print Assumptions auto_table_name_fresh.

(* an explicit name equal, ignoring case, to a sibling's is refused with IndexError and the
   document is unchanged (any lower) *)
Theorem dup_refused_unchanged : forall lower (d : doc) (n t : list N),
  ~ ci_fresh lower n (sheet_names d) ->
  step lower d (AddSheet (Some n) t) = (d, Err IndexError).
Proof. exact dup_sheet_refused. Qed.
Print Assumptions dup_refused_unchanged.

Theorem dup_table_refused_unchanged : forall lower (d : doc) (si : Z) (i : nat) (s : sheet) (n : list N),
  get_idx (length d) si = Ok i -> nth_error d i = Some s ->
  ~ ci_fresh lower n (snd s) ->
  step lower d (AddTable si (Some n)) = (d, Err IndexError).
Proof. exact dup_table_refused. Qed.
Print Assumptions dup_table_refused_unchanged.

(* ... and a name that is not a duplicate is accepted, character for character *)
Theorem fresh_name_accepted : forall lower (d : doc) (n t : list N),
  wf_doc d -> ci_fresh lower n (sheet_names d) ->
  step lower d (AddSheet (Some n) t) = (d ++ [(n, [t])], Ok tt).
Proof. exact fresh_sheet_accepted. Qed.
Print Assumptions fresh_name_accepted.

Theorem fresh_table_name_accepted : forall lower (d : doc) (si : Z) (i : nat) (s : sheet) (n : list N),
  get_idx (length d) si = Ok i -> nth_error d i = Some s -> snd s <> [] ->
  ci_fresh lower n (snd s) ->
  step lower d (AddTable si (Some n)) = (replace_at d i (fst s, snd s ++ [n]), Ok tt).
Proof. exact fresh_table_accepted. Qed.
Print Assumptions fresh_table_name_accepted.

(* any failed operation leaves the document unchanged *)
Theorem failed_step_unchanged : forall lower (d : doc) (o : op) (d' : doc) (e : pyexn),
  step lower d o = (d', Err e) -> d' = d.
Proof. exact failed_step_unchanged_lemma. Qed.
Print Assumptions failed_step_unchanged.

(* lookup by name returns the first item in iteration order whose name is exactly the key;
   KeyError exactly when there is none *)
Theorem lookup_by_name_exact : forall (it : list (list N)) (key : list N) (i : nat),
  get_by_name it key = Ok i ->
  nth_error it i = Some key /\ forall j, (j < i)%nat -> nth_error it j <> Some key.
Proof. exact lookup_by_name_exact_lemma. Qed.
Print Assumptions lookup_by_name_exact.

Theorem lookup_by_name_missing : forall (it : list (list N)) (key : list N) (e : pyexn),
  get_by_name it key = Err e -> e = KeyError /\ ~ In key it.
Proof. exact lookup_by_name_missing_lemma. Qed.
Print Assumptions lookup_by_name_missing.

Theorem lookup_by_name_found : forall (it : list (list N)) (key : list N),
  In key it -> exists i, get_by_name it key = Ok i.
Proof. exact lookup_by_name_found_lemma. Qed.
Print Assumptions lookup_by_name_found.

(* lookup by integer index: for -len <= k < len the item at position k mod len of the
   iteration order, IndexError for every other integer *)
Theorem index_agrees : forall (A : Type) (it : list A) (k : Z),
  let n := Z.of_nat (length it) in
  ((- n <= k < n)%Z -> exists x, nth_error it (Z.to_nat (k mod n)) = Some x /\ get it k = Ok x) /\
  (~ (- n <= k < n)%Z -> get it k = Err IndexError).
Proof. exact @index_agrees_lemma. Qed.
Print Assumptions index_agrees.

(* iteration by the sequence protocol (__getitem__(0), (1), ... until IndexError) is the list *)
Theorem iteration_is_list_order : forall (A : Type) (it : list A) (i : nat),
  get it (Z.of_nat i) = match nth_error it i with Some x => Ok x | None => Err IndexError end.
Proof. exact @get_nonneg. Qed.
Print Assumptions iteration_is_list_order.

(* the pinned __getitem__ (before the fix) wraps twice: [-3] on two items is the last item *)
Theorem index_agrees_pinned_refuted :
  get_pinned [[97]; [98]]%N (-3) = Ok [98]%N /\ get [[97]; [98]]%N (-3) = Err IndexError.
Proof. exact pinned_wraps_twice. Qed.
Print Assumptions index_agrees_pinned_refuted.

(* order: histories of adds only append - every sheet keeps its name and position, every
   table of every sheet keeps its name and position *)
Theorem order_stable_under_adds : forall lower (h : list op) (d : doc),
  forallb is_add h = true -> doc_prefix d (run lower d h).
Proof. exact adds_only_append_lemma. Qed.
Print Assumptions order_stable_under_adds.

(* a rename changes one name in place and nothing else *)
Theorem rename_sheet_in_place : forall lower (d : doc) (si : Z) (v : list N) (d' : doc),
  step lower d (RenameSheet si v) = (d', Ok tt) ->
  exists i s, get_idx (length d) si = Ok i /\ nth_error d i = Some s /\ d' = replace_at d i (v, snd s).
Proof. exact rename_sheet_lemma. Qed.
Print Assumptions rename_sheet_in_place.

Theorem rename_table_in_place : forall lower (d : doc) (si ti : Z) (v : list N) (d' : doc),
  step lower d (RenameTable si ti v) = (d', Ok tt) ->
  exists i s j, get_idx (length d) si = Ok i /\ nth_error d i = Some s /\
    get_idx (length (snd s)) ti = Ok j /\ d' = replace_at d i (fst s, replace_at (snd s) j v).
Proof. exact rename_table_lemma. Qed.
Print Assumptions rename_table_in_place.

(* every history keeps "at least one sheet, every sheet at least one table" (what add_sheet /
   add_table rely on when they take the template table) *)
Theorem histories_keep_wf : forall lower (h : list op) (d : doc),
  wf_doc d -> wf_doc (run lower d h).
Proof. exact run_wf. Qed.
Print Assumptions histories_keep_wf.

(* non-vacuity: the hypothesis on lower is satisfiable, and a concrete history *)
Example lower_ascii_inhabited : lower_ascii ascii_lower.
Proof. exact ascii_lower_is_lower_ascii. Qed.

Example c19_history :
  let d0 : doc := [([83;104;101;101;116;32;49], [[84;97;98;108;101;32;49]])]%N in
  let h := [AddTable 0 None;                                  (* Table 2 *)
            AddTable 0 (Some [116;97;98;108;101;32;51]%N);    (* "table 3" *)
            AddTable (-1) None;                               (* skips 3 -> Table 4 *)
            AddTable 0 (Some [84;65;66;76;69;32;50]%N);       (* "TABLE 2": refused *)
            AddSheet None [120]%N;                            (* Sheet 2 *)
            AddSheet (Some [115;72;69;69;84;32;50]%N) [120]%N (* "sHEET 2": refused *)] in
  run ascii_lower d0 h =
    [([83;104;101;101;116;32;49], [[84;97;98;108;101;32;49]; [84;97;98;108;101;32;50];
                                   [116;97;98;108;101;32;51]; [84;97;98;108;101;32;52]]);
     ([83;104;101;101;116;32;50], [[120]])]%N
  /\ snd (step ascii_lower (run ascii_lower d0 h) (AddTable 0 (Some [84;65;66;76;69;32;50]%N))) = Err IndexError
  /\ get (run ascii_lower d0 h) (-2) = Ok ([83;104;101;101;116;32;49], [[84;97;98;108;101;32;49]; [84;97;98;108;101;32;50];
                                   [116;97;98;108;101;32;51]; [84;97;98;108;101;32;52]])%N
  /\ get (run ascii_lower d0 h) (-3) = Err IndexError
  /\ get (run ascii_lower d0 h) 2 = Err IndexError.
Proof. vm_compute. repeat split. Qed.
