(* C13 - displayed numbers agree numerically with the stored value.
   Property theorems only; each is closed by [exact] of a lemma from Proofs/.

   Vocabulary (Model/Digits.v, Model/NumFormat.v):
     dec                      (-1)^dneg * dmant * 10^dexp : the digits of Python's str(value)
     value_rat is_int m e     the magnitude of the Python number as an exact rational (vn, vd):
                              the int itself, or the correctly rounded binary64 value of the decimal
     round_sig 15, rhu_at     sigfig's rounding to 15 significant digits / half-up to a decimal place
     format_*                 the text Cell.formatted_value returns for each built-in number format
     readback_*               the number a displayed text denotes in its notation
   The tree the model mirrors is /repo with /verif/fixes/C13-*.patch applied. *)
From Coq Require Import ZArith NArith List Bool.
From NP Require Import Gen.GenC13 Model.PyBase Model.Digits Model.C13Tables Model.NumFormat
  Proofs.DigitsP Proofs.B64P Proofs.NumFormatP Proofs.BaseP Proofs.SciFracP Proofs.LimitDenP Proofs.AutoP.
Import ListNotations.
Open Scope Z_scope.

(* translator tie: the currency tables and format constants in /repo are the ones the model uses *)
Theorem c13_tables :
  GenC13.currency_symbols = C13Tables.currency_symbols /\
  GenC13.currencies = C13Tables.currencies /\
  GenC13.max_significant_digits = C13Tables.max_significant_digits /\
  GenC13.decimal_places_auto = C13Tables.decimal_places_auto /\
  GenC13.max_base = C13Tables.max_base /\
  GenC13.star_rating_value = C13Tables.star_rating_value /\
  GenC13.fraction_accuracies = C13Tables.fraction_accuracies /\
  GenC13.negative_styles = C13Tables.negative_styles.
Proof. repeat split; reflexivity. Qed.
Print Assumptions c13_tables.

(* ---------------------------------------------------------------- decimal / percentage *)

(* number and percentage formats with p decimal places: the displayed text reads back as the value
   rounded (15 significant digits, then half-up to p places) with exactly p decimals, for every
   decimal, every p below the automatic marker, every separator / negative style choice.
   For a percentage d is the decimal of value*100 and the text carries a % sign. *)
Theorem decimal_display : forall (is_int : bool) (d : dec) (places : Z) (sep : bool) (ns : Z) (pct : bool),
  0 <= dmant d -> 0 <= places < AUTO ->
  let m1 := fst (round_sig SIG (dmant d) (dexp d)) in
  let e1 := snd (round_sig SIG (dmant d) (dexp d)) in
  let M := rhu_at m1 e1 (- places) in
  readback_decimal (format_decimal is_int d places sep ns pct) = Some (shown_negative d ns M, M, places).
Proof. exact decimal_display_lemma. Qed.
Print Assumptions decimal_display.

Theorem percent_display : forall (is_int : bool) (d100 : dec) (places : Z) (sep : bool) (ns : Z),
  0 <= dmant d100 -> 0 <= places < AUTO ->
  let m1 := fst (round_sig SIG (dmant d100) (dexp d100)) in
  let e1 := snd (round_sig SIG (dmant d100) (dexp d100)) in
  let M := rhu_at m1 e1 (- places) in
  readback_decimal (format_decimal is_int d100 places sep ns true) = Some (shown_negative d100 ns M, M, places).
Proof. intros is_int d100 places sep ns. exact (decimal_display_lemma is_int d100 places sep ns true). Qed.
Print Assumptions percent_display.

(* what "rounded" means: M is the multiple of 10^lp nearest to mant*10^ex, ties upwards; and it is the
   number itself when it has no digit below 10^lp *)
Theorem rounding_is_half_up : forall mant ex lp : Z, 0 <= mant -> ex < lp ->
  let k := lp - ex in let M := rhu_at mant ex lp in
  0 <= M /\ 2 * mant - 10 ^ k < 2 * (M * 10 ^ k) <= 2 * mant + 10 ^ k.
Proof. exact rhu_at_spec. Qed.
Print Assumptions rounding_is_half_up.

Theorem rounding_exact_when_short : forall mant ex lp : Z, lp <= ex -> rhu_at mant ex lp = mant * 10 ^ (ex - lp).
Proof. exact rhu_at_exact_val. Qed.
Print Assumptions rounding_exact_when_short.

(* values with at most 15 significant digits are displayed from their own digits *)
Theorem fifteen_digits_identity : forall mant ex : Z, ndig mant <= SIG -> round_sig SIG mant ex = (mant, ex).
Proof. exact (round_sig_small SIG). Qed.
Print Assumptions fifteen_digits_identity.

(* ... and longer ones are first rounded half-up to 15 significant digits (sigfig on the repr digits) *)
Theorem fifteen_digits_rounding : forall mant ex : Z, SIG < ndig mant ->
  round_sig SIG mant ex = (rhu_at mant ex (ex + ndig mant - SIG), ex + ndig mant - SIG).
Proof. exact (round_sig_big SIG). Qed.
Print Assumptions fifteen_digits_rounding.

(* decoration only: whatever the separator, negative style, percent sign - the digits and the decimal
   point of the text are those of the plain rounded number *)
Theorem decoration_only : forall (is_int : bool) (d : dec) (places : Z) (sep : bool) (ns : Z) (pct : bool),
  0 <= dmant d -> 0 <= places < AUTO ->
  let m1 := fst (round_sig SIG (dmant d) (dexp d)) in
  let e1 := snd (round_sig SIG (dmant d) (dexp d)) in
  filter is_dd (format_decimal is_int d places sep ns pct) = plain_digits (rhu_at m1 e1 (- places)) places.
Proof. exact decimal_digits_lemma. Qed.
Print Assumptions decoration_only.

(* currency: symbol, accounting layout, separator and negative style change neither a digit nor the
   magnitude; the sign is shown by a minus sign or by parentheses (accounting: always parentheses) *)
Theorem currency_display : forall (is_int : bool) (d : dec) (places : Z) (sep : bool) (ns : Z) (acct : bool) (code : list N),
  0 <= dmant d -> 0 <= places < AUTO -> decoration code = true ->
  let m1 := fst (round_sig SIG (dmant d) (dexp d)) in
  let e1 := snd (round_sig SIG (dmant d) (dexp d)) in
  let M := rhu_at m1 e1 (- places) in
  readback_decimal (format_currency is_int d places sep ns acct code)
    = Some (shown_negative_currency d ns M acct, M, places) /\
  filter is_dd (format_currency is_int d places sep ns acct code) = plain_digits M places.
Proof. exact currency_display_lemma. Qed.
Print Assumptions currency_display.

(* every currency code the library accepts is pure decoration, and so is its symbol *)
Theorem currency_codes_are_decoration : forall code : list N,
  existsb (str_eqb code) currencies = true -> decoration code = true /\ decoration (currency_symbol code) = true.
Proof. intros code H. split; [apply known_code_decor; exact H|apply currency_symbol_decor, known_code_decor; exact H]. Qed.
Print Assumptions currency_codes_are_decoration.

(* a carry that adds a digit: 10^k - 5*10^(-p-1) <= |x| < 10^k shows 1 followed by k zeros, grouping
   recomputed (999.995 at two places -> 1,000.00) *)
Theorem rounding_carry : forall (mant p k j : Z) (sep : bool), 0 <= k -> 0 <= p -> 1 <= j ->
  10 ^ (k + p + j) - 5 * 10 ^ (j - 1) <= mant < 10 ^ (k + p + j) ->
  rhu_at mant (- p - j) (- p) = 10 ^ (k + p) /\
  fixed_str sep (10 ^ (k + p)) p =
    (if sep then group3 (49%N :: zeros k) else 49%N :: zeros k) ++ (if 0 <? p then c_dot :: zeros p else []).
Proof.
  intros mant p k j sep Hk Hp Hj H. split; [apply rounding_carry_value; assumption|apply rounding_carry_text; assumption].
Qed.
Print Assumptions rounding_carry.

(* ---------------------------------------------------------------- automatic places *)

(* an integer-valued number with automatic places shows int(value): all its digits, no decimals *)
Theorem auto_integer_display : forall (is_int : bool) (d : dec) (places : Z) (sep : bool) (ns : Z) (pct : bool),
  AUTO <= places ->
  let vn := fst (value_rat is_int (dmant d) (dexp d)) in
  let vd := snd (value_rat is_int (dmant d) (dexp d)) in
  vn mod vd = 0 ->
  readback_decimal (format_decimal is_int d places sep ns pct) = Some (shown_negative_auto d ns (vn / vd), vn / vd, 0) /\
  filter is_dd (format_decimal is_int d places sep ns pct) = zstr (vn / vd).
Proof. exact auto_integer_lemma. Qed.
Print Assumptions auto_integer_display.

Theorem auto_int_display : forall (d : dec) (places : Z) (sep : bool) (ns : Z) (pct : bool),
  AUTO <= places -> 0 < dmant d -> 0 <= dexp d ->
  let n := dmant d * 10 ^ dexp d in
  readback_decimal (format_decimal true d places sep ns pct) = Some (shown_negative_auto d ns n, n, 0).
Proof. exact auto_int_lemma. Qed.
Print Assumptions auto_int_display.

(* a non-integer value with automatic places (positional notation): all the digits of the value rounded
   to 15 significant digits and no trailing zero - except the single ".0" Python prints when the rounding
   produced an integer (0.57 as a percentage: 56.99999999999999 -> "57.0%").
   m * 10^e are the digits of the rounded value m1 * 10^e1 without trailing zeros. *)
Theorem auto_fraction_display : forall (is_int : bool) (d : dec) (places : Z) (sep : bool) (ns : Z) (pct : bool),
  AUTO <= places -> 0 < dmant d ->
  let vn := fst (value_rat is_int (dmant d) (dexp d)) in
  let vd := snd (value_rat is_int (dmant d) (dexp d)) in
  let m1 := fst (round_sig SIG (dmant d) (dexp d)) in
  let e1 := snd (round_sig SIG (dmant d) (dexp d)) in
  let m := fst (strip0 (Z.to_nat (ndig m1)) m1 e1) in
  let e := snd (strip0 (Z.to_nat (ndig m1)) m1 e1) in
  vn mod vd <> 0 -> positional sep m e = true ->
  let M := if 0 <=? e then m * 10 ^ (e + 1) else m in
  let P := if 0 <=? e then 1 else - e in
  readback_decimal (format_decimal is_int d places sep ns pct) = Some (shown_negative d ns 1, M, P) /\
  m1 = m * 10 ^ (e - e1) /\ e1 <= e /\ (e < 0 -> m mod 10 <> 0).
Proof. exact auto_fraction_lemma. Qed.
Print Assumptions auto_fraction_display.

(* open finding auto-integer:over-15-digits (automatic places print int(float) in full).
   Full statement: a float whose decimal is an integer is shown digit for digit.  It holds below 2^53
   (_partial; this covers every displayed integer below 10^15 < 2^53, the complement of the finding's
   signature) and fails above (_refuted: the decimal 754499470762295 * 10^2 - 0.754499470762295e15 as a
   percentage - is shown as 75449947076229504).  Between 10^15 and 2^53 the text is faithful to the
   decimal that reaches the formatter, but for percentages that decimal is repr(value*100), whose 16th
   digit already carries the rounding of the binary64 product (trusted base: the product is Python's). *)
Theorem auto_float_integer_partial : forall (d : dec) (places : Z) (sep : bool) (ns : Z) (pct : bool),
  AUTO <= places -> 0 < dmant d -> 0 <= dexp d -> dmant d * 10 ^ dexp d < 2 ^ 53 ->
  let n := dmant d * 10 ^ dexp d in
  readback_decimal (format_decimal false d places sep ns pct) = Some (shown_negative_auto d ns n, n, 0).
Proof. exact auto_float_integer_lemma. Qed.
Print Assumptions auto_float_integer_partial.

Theorem auto_float_integer_refuted : exists (d : dec) (shown : Z),
  0 < dmant d /\ 0 <= dexp d /\ ndig (dmant d) <= SIG /\
  readback_decimal (format_decimal false d AUTO false 0 true) = Some (false, shown, 0) /\
  shown <> dmant d * 10 ^ dexp d.
Proof.
  exists (mkdec false 754499470762295 2), 75449947076229504.
  split; [reflexivity|]. split; [discriminate|]. split; [vm_compute; discriminate|].
  split; [exact (proj1 auto_float_integer_witness)|vm_compute; discriminate].
Qed.
Print Assumptions auto_float_integer_refuted.

(* ---------------------------------------------------------------- number bases *)

(* the integer a base format shows is the nearest integer to the value (Python round: ties to even) *)
Theorem base_shows_nearest_integer : forall (is_int : bool) (d : dec),
  let vn := fst (value_rat is_int (dmant d) (dexp d)) in
  let vd := snd (value_rat is_int (dmant d) (dexp d)) in
  let v := base_shown is_int d in
  0 <= v /\ 2 * vn - vd <= 2 * (v * vd) <= 2 * vn + vd.
Proof.
  intros is_int d. cbv zeta. unfold base_shown.
  pose proof (value_rat_pos is_int (dmant d) (dexp d)) as H.
  destruct (value_rat is_int (dmant d) (dexp d)) as [vn vd]. cbn [fst snd]. destruct H as [H1 H2].
  apply rne_div_spec; assumption.
Qed.
Print Assumptions base_shows_nearest_integer.

(* bases 2..36 with a minus sign (and two's-complement formats of non-negative numbers): the digits read
   back, in that base, as the integer shown; they are zero-padded to exactly max(places, natural width) *)
Theorem base_display : forall (is_int : bool) (d : dec) (base places : Z) (minus : bool),
  2 <= base <= 36 ->
  (minus = true \/ twos_base base = false \/ dneg d = false \/ base_shown is_int d = 0) ->
  let v := base_shown is_int d in
  let s := format_base is_int d base places minus in
  readback_base base s = (if dneg d then - v else v) /\
  (let digits := if (0 <? v) && dneg d then tl s else s in
   zlen digits = Z.max places (if v <=? 0 then 1 else nbdig base v)).
Proof. exact base_minus_lemma. Qed.
Print Assumptions base_display.

(* two's complement (bases 2, 8, 16) of a negative number: read at its printed width - the leading 1 bit
   is the sign bit - the text is the number; the width is at least 32 bits *)
Theorem base_twos_display : forall (is_int : bool) (d : dec) (base places : Z),
  (base = 2 \/ base = 8 \/ base = 16) -> dneg d = true -> 0 < base_shown is_int d ->
  let v := base_shown is_int d in
  let s := format_base is_int d base places false in
  readback_twos base s = - v /\ 32 <= Z.log2 (bval base s) + 1.
Proof. exact base_twos_lemma. Qed.
Print Assumptions base_twos_display.

(* ---------------------------------------------------------------- scientific *)

(* d.ddd..E+XX with p decimals: the mantissa has p+1 digits, 10^p <= q < 10^(p+1), and q*10^e is a
   (p+1)-digit decimal nearest to the stored binary value (ties to even), X = e + p *)
Theorem scientific_display : forall (d : dec) (p : Z), 0 <= dmant d -> 0 <= p ->
  let m1 := fst (round_sig SIG (dmant d) (dexp d)) in
  let e1 := snd (round_sig SIG (dmant d) (dexp d)) in
  let vn := fst (value_rat false m1 e1) in
  let vd := snd (value_rat false m1 e1) in
  if vn <=? 0 then readback_scientific (format_scientific d p) = Some (dneg d, 0, p, 0)
  else exists q e,
    round_float 10 (p + 1) vn vd = (q, e) /\
    readback_scientific (format_scientific d p) = Some (dneg d, q, p, e + p) /\
    10 ^ p <= q < 10 ^ (p + 1) /\ nearest_scaled 10 vn vd q e.
Proof. exact scientific_display_lemma. Qed.
Print Assumptions scientific_display.

(* ---------------------------------------------------------------- fractions *)

(* fixed denominators (halves .. hundredths): the text reads back as whole + num/den exactly (a shown
   fraction has the asked denominator), the sign is kept unless the shown value is zero *)
Theorem fraction_display : forall (is_int : bool) (d : dec) (acc : Z),
  0 <= dmant d -> 0 < acc -> Z.land acc 4278190080 = 0 ->
  let vn := fst (value_rat is_int (dmant d) (dexp d)) in
  let vd := snd (value_rat is_int (dmant d) (dexp d)) in
  let whole := vn / vd in
  let num := fraction_numerator acc vn vd in
  exists s neg w a b,
    format_fraction is_int d acc = Ok s /\ readback_fraction s = Some (neg, w, a, b) /\
    0 < b /\ (w * b + a) * acc = (whole * acc + num) * b /\ (a = 0 \/ b = acc) /\
    neg = (is_neg d && negb (str_eqb (frac_parts whole num acc) [48%N])) /\
    (str_eqb (frac_parts whole num acc) [48%N] = true -> w = 0 /\ a = 0).
Proof. exact fraction_fixed_lemma. Qed.
Print Assumptions fraction_display.

(* ... and num/den is within 1/(2 den) of the fractional part, up to the binary64 rounding of the
   product den * frac:  | num - den*frac | <= 1/2 + (num + 1/2) * 2^-53 *)
Theorem fraction_error_bound : forall acc vn vd : Z, 0 <= vn -> 0 < vd -> 0 < acc ->
  let fN := vn - vn / vd * vd in
  let num := fraction_numerator acc vn vd in
  2 ^ 54 * Z.abs (num * vd - acc * fN) <= vd * (2 ^ 53 + 2 * num + 1).
Proof. exact fraction_numerator_error. Qed.
Print Assumptions fraction_error_bound.

(* digit-limited accuracies (up to 1, 2, 3 digits): Fraction.limit_denominator's loop always ends (the
   fuel suffices), the denominator shown is within 1 .. 10^k - 1, the text reads back as exactly the
   fraction p/q the algorithm chose, and p/q is a closest fraction to the value vn/vd among ALL fractions
   a'/b' with a denominator up to 10^k - 1 (Farey-neighbour argument on the two candidates). *)
Theorem fraction_digits_display : forall (is_int : bool) (d : dec) (acc : Z),
  0 <= dmant d -> Z.land acc 4278190080 <> 0 -> 0 <= 4294967296 - acc -> 1 <= 10 ^ (4294967296 - acc) - 1 ->
  let vn := fst (value_rat is_int (dmant d) (dexp d)) in
  let vd := snd (value_rat is_int (dmant d) (dexp d)) in
  let maxd := 10 ^ (4294967296 - acc) - 1 in
  exists p q s neg w a b,
    limit_denominator vn vd maxd = Some (p, q) /\ 1 <= q <= maxd /\
    format_fraction is_int d acc = Ok s /\ readback_fraction s = Some (neg, w, a, b) /\
    0 < b /\ (w * b + a) * q = p * b /\ (a = 0 \/ b = q) /\
    (neg = true -> is_neg d = true) /\ (is_neg d = true -> neg = false -> p = 0) /\
    (forall a' b', 1 <= b' <= maxd -> Z.abs (vn * q - vd * p) * b' <= Z.abs (vn * b' - vd * a') * q).
Proof. exact fraction_digits_lemma. Qed.
Print Assumptions fraction_digits_display.

(* the same statement about Fraction.limit_denominator itself *)
Theorem limit_denominator_is_closest : forall n0 d0 maxd p q : Z, 0 <= n0 -> 0 < d0 -> 1 <= maxd ->
  limit_denominator n0 d0 maxd = Some (p, q) ->
  forall a b, 1 <= b <= maxd -> Z.abs (n0 * q - d0 * p) * b <= Z.abs (n0 * b - d0 * a) * q.
Proof. exact limit_denominator_closest. Qed.
Print Assumptions limit_denominator_is_closest.

(* ---------------------------------------------------------------- star rating *)
Theorem rating_display : forall (is_int : bool) (d : dec),
  let vn := fst (value_rat is_int (dmant d) (dexp d)) in
  let vd := snd (value_rat is_int (dmant d) (dexp d)) in
  readback_rating (format_rating is_int d) = if dneg d then 0 else vn / vd.
Proof. exact rating_lemma. Qed.
Print Assumptions rating_display.

(* ---------------------------------------------------------------- custom format strings *)
(* _expand_quotes removes nothing but quote characters: the digits and the decimal point of a formatted
   custom number pass through unchanged; a string without quotes is returned as it is *)
Theorem expand_quotes_keeps_digits : forall (s : list N) (b : bool),
  filter is_dd (expand_quotes s b) = filter is_dd s.
Proof. exact expand_quotes_digits. Qed.
Print Assumptions expand_quotes_keeps_digits.

Theorem expand_quotes_without_quotes : forall (s : list N) (b : bool),
  Forall (fun c => (c =? 39)%N = false) s -> expand_quotes s b = s.
Proof. exact expand_quotes_id. Qed.
Print Assumptions expand_quotes_without_quotes.

(* ---------------------------------------------------------------- the binary64 value *)

(* the float the model attributes to a decimal n/d: 53-bit mantissa, relative error at most 2^-53 *)
Theorem binary64_rounding : forall n d : Z, 0 < n -> 0 < d ->
  let '(vn, vd) := rat_of_b64 (b64_of_rat n d) in
  0 < vn /\ 0 < vd /\ 2 ^ 53 * Z.abs (vn * d - n * vd) <= vn * d.
Proof. exact b64_rat_spec. Qed.
Print Assumptions binary64_rounding.

Theorem binary64_mantissa : forall n d : Z, 0 < n -> 0 < d ->
  let '(m, e) := b64_of_rat n d in
  2 ^ 52 <= m < 2 ^ 53 /\ 2 * Z.abs (m * scB 2 d e - scA 2 n e) <= scB 2 d e.
Proof. exact b64_of_rat_spec. Qed.
Print Assumptions binary64_mantissa.

Theorem binary64_exact_integers : forall n : Z, 0 < n < 2 ^ 53 ->
  let '(vn, vd) := rat_of_b64 (b64_of_rat n 1) in 0 < vd /\ vn = n * vd.
Proof. exact b64_int_exact. Qed.
Print Assumptions binary64_exact_integers.

(* ---------------------------------------------------------------- non-vacuity *)
(* 999.995 -> 1,000.00 ; -1234.5 GBP accounting -> £ TAB (1,234.50) ; -0.004 -> 0.00 ; -255 in 32-bit hex *)
Example c13_examples :
  format_decimal false (mkdec false 999995 (-3)) 2 true 0 false = [49;44;48;48;48;46;48;48]%N /\
  format_currency false (mkdec true 12345 (-1)) 2 true 1 true [71;66;80]%N
    = [163;9;40;49;44;50;51;52;46;53;48;41]%N /\
  format_decimal false (mkdec true 4 (-3)) 2 true 0 false = [48;46;48;48]%N /\
  format_base true (mkdec true 255 0) 16 0 false = [70;70;70;70;70;70;48;49]%N /\
  format_fraction false (mkdec true 15 (-1)) 2 = Ok [45;49;32;49;47;50]%N /\
  format_scientific (mkdec false 12345678 (-4)) 3 = [49;46;50;51;53;69;43;48;51]%N /\
  readback_decimal [163;9;40;49;44;50;51;52;46;53;48;41]%N = Some (true, 123450, 2) /\
  readback_twos 16 [70;70;70;70;70;70;48;49]%N = -255.
Proof. vm_compute. repeat split. Qed.
