(* C13 - displayed numbers agree numerically with the stored value. (theorems: work in progress) *)
From Coq Require Import ZArith NArith List Bool.
From NP Require Import Gen.GenC13 Model.PyBase Model.Digits Model.C13Tables Model.NumFormat.
Import ListNotations.

Theorem c13_tables :
  GenC13.currency_symbols = C13Tables.currency_symbols /\
  GenC13.currencies = C13Tables.currencies /\
  GenC13.max_significant_digits = C13Tables.max_significant_digits /\
  GenC13.decimal_places_auto = C13Tables.decimal_places_auto /\
  GenC13.max_base = C13Tables.max_base /\
  GenC13.star_rating_value = C13Tables.star_rating_value /\
  GenC13.fraction_accuracies = C13Tables.fraction_accuracies /\
  GenC13.negative_styles = C13Tables.negative_styles.
Proof. repeat split; reflexivity. Qed.
Print Assumptions c13_tables.
