(* C18 - the formula tokenizer is lossless, total, and accepts every formula the reader emits.
   Property theorems only; each is closed by [exact] of a lemma from Proofs/Tokenizer*.v.
   [tokenize] is the model of the repaired tree (fixes/C18-unmatched-closer.patch),
   [tokenize_pinned] the model of the pinned tree; both run the float() oracle [py_float_ok];
   [tokenize_gen isnum e] is the model for an arbitrary float() oracle. *)
From Coq Require Import NArith List Bool.
From NP Require Import Gen.GenTok Model.PyBase Model.Tokenizer
  Proofs.TokenizerP Proofs.TokenizerQ Proofs.TokenizerR Proofs.TokenizerF Proofs.TokenizerGen.
Import ListNotations.
Open Scope N_scope.

(* total: every string is tokenized or rejected with the tokenizer's own error type *)
Theorem tok_total : forall s : list N,
  (exists ts, tokenize s = Ok ts) \/ tokenize s = Err TokenizerError.
Proof. exact tok_total_lemma. Qed.
Print Assumptions tok_total.

(* ... whatever float() answers (it only selects the subtype NUMBER / RANGE) *)
Theorem tok_total_any_float : forall (isnum : list N -> bool) (s : list N),
  (exists ts, tokenize_gen isnum TokenizerError s = Ok ts) \/ tokenize_gen isnum TokenizerError s = Err TokenizerError.
Proof. exact tok_total_any_float. Qed.
Print Assumptions tok_total_any_float.

(* the pinned tree: an unmatched closer escapes as the IndexError of list.pop() *)
Theorem tok_total_pinned_refuted :
  exists s, tokenize_pinned s = Err PopEmpty.
Proof. exact tok_total_pinned_refuted_lemma. Qed.
Print Assumptions tok_total_pinned_refuted.

(* ... and is the only foreign exception of the pinned tree *)
Theorem tok_total_pinned_partial : forall s : list N,
  tokenize_pinned s <> Err PopEmpty ->
  (exists ts, tokenize_pinned s = Ok ts) \/ tokenize_pinned s = Err TokenizerError.
Proof. exact tok_total_pinned_partial_lemma. Qed.
Print Assumptions tok_total_pinned_partial.

(* and that exception type is the only thing the repair changes *)
Theorem repair_only_changes_exception : forall s : list N,
  tokenize_pinned s = tokenize s \/ (tokenize_pinned s = Err PopEmpty /\ tokenize s = Err TokenizerError).
Proof. exact repair_only_changes_exception_lemma. Qed.
Print Assumptions repair_only_changes_exception.

(* lossless: the token texts concatenated in order are the input *)
Theorem tok_lossless : forall (s : list N) (ts : list token),
  tokenize s = Ok ts -> concat (map tval ts) = s.
Proof. exact tok_lossless_lemma. Qed.
Print Assumptions tok_lossless.

Theorem tok_lossless_any_float : forall (isnum : list N -> bool) (e : pyexn) (s : list N) (ts : list token),
  tokenize_gen isnum e s = Ok ts -> concat (map tval ts) = s.
Proof. exact tok_lossless_any_float. Qed.
Print Assumptions tok_lossless_any_float.

(* fuel: the loop bound of the model is never reached, and any larger bound gives the same
   answer (every iteration consumes at least one character) *)
Theorem tok_fuel_sufficient : forall (s : list N) (fuel : nat), (length s < fuel)%nat ->
  run py_float_ok TokenizerError fuel st0 s = tokenize s /\ tokenize s <> Err OutOfFuel.
Proof. exact tok_fuel_lemma. Qed.
Print Assumptions tok_fuel_sufficient.

(* the same for the fuel of the quoted-reference scanner's continuation loop *)
Theorem sq_scanner_fuel_sufficient : forall (f1 f2 : nat) (s : list N) (n : N),
  (length s <= f1)%nat -> (length s <= f2)%nat -> sq_cont f1 s n = sq_cont f2 s n.
Proof. exact sq_cont_fuel. Qed.
Print Assumptions sq_scanner_fuel_sufficient.

(* quoted strings and quoted names are atomic: a token that contains a quote character is an
   OPERAND whose text is exactly what STRING_REGEXES matches at the token's offset in the
   input (the offset is the total length of the preceding tokens, by tok_lossless); every other
   token is free of quote characters.  So no quoted text is split or merged with its context. *)
Theorem quoted_atomic : forall (s : list N) (ts : list token),
  tokenize s = Ok ts ->
  forall pre t post, ts = pre ++ t :: post ->
  In DQ (tval t) \/ In SQ (tval t) ->
  exists m, match_quoted (skipn (length (concat (map tval pre))) s) = Some m /\
            tval t = firstn (N.to_nat m) (skipn (length (concat (map tval pre))) s) /\
            tty t = OPERAND.
Proof. exact quoted_atomic_lemma. Qed.
Print Assumptions quoted_atomic.

(* the scanners against the grammar of the regexes (TokenizerR.v: dq_lang, sq_lang, sn_lang
   are the regexes read as grammars) *)
Theorem dq_scanner_is_regex : forall (s : list N) (m : N),
  match_dq s = Some m <->
  exists w rest, s = w ++ rest /\ dq_lang w /\ not_followed_by DQ rest /\ m = N.of_nat (length w).
Proof. exact dq_scanner_is_regex_lemma. Qed.
Print Assumptions dq_scanner_is_regex.

Theorem sq_scanner_sound : forall (s : list N) (m : N),
  match_sq s = Some m -> exists w rest, s = w ++ rest /\ sq_lang w /\ m = N.of_nat (length w).
Proof. exact sq_scanner_sound_lemma. Qed.
Print Assumptions sq_scanner_sound.

Theorem sq_scanner_longest : forall (s : list N) (m : N),
  match_sq s = Some m -> forall w rest, s = w ++ rest -> sq_lang w -> N.of_nat (length w) <= m.
Proof. exact sq_scanner_longest_lemma. Qed.
Print Assumptions sq_scanner_longest.

Theorem sq_scanner_complete : forall s : list N,
  match_sq s = None -> forall w rest, s = w ++ rest -> ~ sq_lang w.
Proof. exact sq_scanner_complete_lemma. Qed.
Print Assumptions sq_scanner_complete.

Theorem sn_scanner_is_regex : forall t : list N,
  sn_match t = true <-> sn_lang t \/ exists t', t = t' ++ [10] /\ sn_lang t'.
Proof. exact sn_scanner_is_regex_lemma. Qed.
Print Assumptions sn_scanner_is_regex.

(* `accepts every formula the reader emits` is refuted on this tree (open findings): the reader
   prints  Table 1::'a+b'  and  it'''s ; the tokenizer rejects every text in which a quote
   directly follows pending operand characters *)
Theorem accepts_reader_refuted :
  tokenize [84;97;98;108;101;32;49;58;58;39;97;43;98;39] = Err TokenizerError /\
  tokenize [105;116;39;39;39;115] = Err TokenizerError.
Proof. exact reader_forms_rejected. Qed.
Print Assumptions accepts_reader_refuted.

Theorem quote_after_operand_rejected : forall (p : list N) (q : N) (rest : list N),
  p <> [] -> Forall (fun c => plain c = true) p -> q = DQ \/ q = SQ ->
  tokenize (p ++ q :: rest) = Err TokenizerError.
Proof. exact quote_after_operand_rejected_lemma. Qed.
Print Assumptions quote_after_operand_rejected.

(* what is accepted (partial): the reference and literal forms standing alone - a bare name of
   plain characters, a quoted reference in the regex's language ('a+b', 'a+b':'c d'), a string
   literal - are tokenized to exactly one operand.  [plain c]: c is not a token ender, quote,
   '#', '{' or '('. *)
Theorem plain_reference_accepted : forall p : list N,
  p <> [] -> Forall (fun c => plain c = true) p -> tokenize p = Ok [make_operand py_float_ok p].
Proof. exact plain_reference_accepted_lemma. Qed.
Print Assumptions plain_reference_accepted.

Theorem quoted_reference_accepted : forall w : list N,
  sq_lang w -> tokenize w = Ok [make_operand py_float_ok w].
Proof. exact quoted_reference_accepted_lemma. Qed.
Print Assumptions quoted_reference_accepted.

Theorem string_literal_accepted : forall w : list N,
  dq_lang w -> tokenize w = Ok [{| tval := w; tty := OPERAND; tsub := S_TEXT |}].
Proof. exact string_literal_accepted_lemma. Qed.
Print Assumptions string_literal_accepted.

(* translator tie: regex sources, ERROR_CODES, TOKEN_ENDERS and the dispatcher strings read from
   /repo on this run are the ones the model uses *)
Theorem gen_tok_tables :
  GenTok.dq_pattern = modelled_dq_regex /\
  GenTok.sq_pattern = modelled_sq_regex /\
  GenTok.sn_pattern = modelled_sn_regex /\
  GenTok.regex_keys = [[DQ]; [SQ]] /\
  GenTok.regex_flags = [32; 32; 32] /\
  GenTok.token_enders = enders /\
  GenTok.error_codes = Tokenizer.error_codes /\
  GenTok.disp_string = [DQ; SQ] /\
  GenTok.disp_error = [HASH] /\
  GenTok.disp_operator = operators /\
  GenTok.disp_opener = [LB; LP] /\
  GenTok.disp_closer = [RP; RB] /\
  GenTok.disp_separator = [SEMI; COMMA] /\
  GenTok.infix_chars = infix_only /\
  GenTok.two_char_ops = [[62; 61]; [60; 61]; [60; 62]; [8805]; [8804]; [8800]].
Proof. exact gen_tok_tables_lemma. Qed.
Print Assumptions gen_tok_tables.

(* non-vacuity: concrete instances *)
(* SUM('a' : 'b',1E+3,"x""")%  ->  8 tokens, the quoted reference and the string each one token *)
Example tok_example :
  exists ts, tokenize [83;85;77;40;39;97;39;32;58;32;39;98;39;44;49;69;43;51;44;34;120;34;34;34;41;37] = Ok ts /\
             map tval ts = [[83;85;77;40]; [39;97;39;32;58;32;39;98;39]; [44]; [49;69;43;51]; [44]; [34;120;34;34;34]; [41]; [37]] /\
             map tsub ts = [S_OPEN; S_RANGE; S_ARG; S_NUMBER; S_ARG; S_TEXT; S_CLOSE; S_NONE].
Proof. eexists. vm_compute. repeat split. Qed.
Example tok_example_errors :
  tokenize [RP] = Err TokenizerError /\ tokenize [LB; RP] = Err TokenizerError /\
  tokenize [34; 97] = Err TokenizerError /\ tokenize [35; 70] = Err TokenizerError /\
  tokenize_pinned [RB] = Err PopEmpty.
Proof. vm_compute. repeat split. Qed.
Example scanner_examples :
  match_dq [34;97;34;34;98;34;120] = Some 6 /\ match_dq [34;97;34;34] = None /\
  match_sq [39;97;39;39;39;32;58;9;39;98;39;58] = Some 11 /\
  dq_lang [34;97;34;34;98;34] /\ sn_match [49;46;53;69] = true.
Proof.
  repeat split; try (vm_compute; reflexivity).
  apply (dq_intro [[97]] [98]); repeat constructor; unfold DQ; discriminate.
Qed.
