(* C14 - Displayed dates and durations agree with the stored value.
   Property theorems only; each is closed by [exact] of a lemma from Proofs/.
   Models: Model/DateFormat.v (DATETIME_FIELD_MAP, strftime subset, proleptic Gregorian calendar, the format
   scanner, the validator; [spec_directive] = the table of docs/api/datetime.rst) and Model/Duration.v
   (exact integer milliseconds).  The models mirror the tree with fixes/C14-*.patch applied; the two open
   findings (`y`, `ww`) are modelled as the code has them. *)
From Coq Require Import ZArith NArith List Bool String.
From NP Require Import Gen.GenC14 Model.PyBase Model.DateFormat Model.Duration
  Proofs.C14Gen Proofs.DateFormatP Proofs.DateFormatValP Proofs.DurationP.
Import ListNotations.

(* ---------------------------------------------------------------- directives *)

(* Every directive except the two open findings renders exactly its documented value (range and padding of
   the table) for every valid datetime: all 24 hours, 60 minutes, 60 seconds, 12 months, 31 days, every day of
   every year (day of year, weekday, week of month, n-th weekday), every year, all 10^6 microseconds. *)
Theorem directive_meets_doc : forall d t, valid_dt t -> d <> D_y -> d <> D_ww ->
  render_directive d t = spec_directive d t.
Proof. exact directive_meets_doc_lemma. Qed.
Print Assumptions directive_meets_doc.

(* ... and with the complement of the two known-finding signatures as hypotheses, for every directive *)
Theorem directive_meets_doc_partial : forall d t, valid_dt t ->
  ~ (d = D_y /\ (100 <= year t)%Z) -> ~ (d = D_ww /\ (doc_week_of_year t < 10)%Z) ->
  render_directive d t = spec_directive d t.
Proof. exact directive_meets_doc_partial_lemma. Qed.
Print Assumptions directive_meets_doc_partial.

(* open finding y-prints-century: `y` ("year without century") prints the whole year *)
Theorem directive_meets_doc_refuted_y : exists t, valid_dt t /\ render_directive D_y t <> spec_directive D_y t.
Proof. exact y_refuted_lemma. Qed.
Print Assumptions directive_meets_doc_refuted_y.
Theorem y_renders_whole_year : forall t, render_directive D_y t = istr (year t).
Proof. exact y_renders_year. Qed.
Print Assumptions y_renders_whole_year.

(* open finding ww-zero-padded: `ww` is the documented week number, but always two digits *)
Theorem directive_meets_doc_refuted_ww : exists t, valid_dt t /\ render_directive D_ww t <> spec_directive D_ww t.
Proof. exact ww_refuted_lemma. Qed.
Print Assumptions directive_meets_doc_refuted_ww.
Theorem ww_is_documented_week_zero_padded : forall t,
  (1 <= month t <= 12)%Z -> (1 <= day t <= days_in_month (year t) (month t))%Z ->
  render_directive D_ww t = zfill 2 (spec_directive D_ww t).
Proof. exact ww_renders_padded. Qed.
Print Assumptions ww_is_documented_week_zero_padded.

(* the documented numeric value of every directive lies in the documented range (1..24, 0..11, 1..366, ...) *)
Theorem doc_field_in_range : forall d t lo hi, valid_dt t -> doc_range d = Some (lo, hi) ->
  exists w v, doc_field d t = Num w v /\ (lo <= v <= hi)%Z.
Proof. exact doc_field_in_range_lemma. Qed.
Print Assumptions doc_field_in_range.

(* finite field domains, as swept: the bound is in the statement *)
Theorem hour_directives_all_24 : forall d t, In d [D_a; D_HH; D_H; D_hh; D_h; D_k; D_kk; D_K; D_KK] ->
  (0 <= hour t < 24)%Z -> render_directive d t = spec_directive d t.
Proof. exact hour_dirs_ok. Qed.
Print Assumptions hour_directives_all_24.

(* fractions of a second are the leading digits of the six microsecond digits *)
Theorem microsecond_prefix : forall (n j : nat) t, (n + j = 6)%nat -> (1 <= n)%nat -> (0 <= micro t < 1000000)%Z ->
  micro_prefix n t = zfill n (istr (micro t / 10 ^ Z.of_nat j)).
Proof. exact micro_dir. Qed.
Print Assumptions microsecond_prefix.

(* the pinned tree's k / kk (str(hour).replace("0", "24")) at 10:00 and 20:00 *)
Theorem pinned_k_refuted :
  let t := mkdt 2023 1 1 10 0 0 0 in
  valid_dt t /\ pinned_k t = L"124" /\ pinned_kk t = L"124" /\ spec_directive D_k t = L"10" /\ spec_directive D_kk t = L"10" /\
  pinned_k (mkdt 2023 1 1 20 0 0 0) = L"224".
Proof. exact pinned_k_refuted_lemma. Qed.
Print Assumptions pinned_k_refuted.

(* ---------------------------------------------------------------- calendar *)

(* the day count is strictly monotone in the lexicographic order of valid dates (all years, unbounded) *)
Theorem days_from_civil_strict_mono : forall y1 m1 d1 y2 m2 d2,
  (1 <= m1 <= 12)%Z -> (1 <= d1 <= days_in_month y1 m1)%Z ->
  (1 <= m2 <= 12)%Z -> (1 <= d2 <= days_in_month y2 m2)%Z ->
  date_lt (y1, m1, d1) (y2, m2, d2) -> (days_from_civil y1 m1 d1 < days_from_civil y2 m2 d2)%Z.
Proof. exact days_from_civil_strict_mono. Qed.
Print Assumptions days_from_civil_strict_mono.

Theorem days_from_civil_injective : forall y1 m1 d1 y2 m2 d2,
  (1 <= m1 <= 12)%Z -> (1 <= d1 <= days_in_month y1 m1)%Z ->
  (1 <= m2 <= 12)%Z -> (1 <= d2 <= days_in_month y2 m2)%Z ->
  days_from_civil y1 m1 d1 = days_from_civil y2 m2 d2 -> (y1, m1, d1) = (y2, m2, d2).
Proof. exact days_from_civil_injective. Qed.
Print Assumptions days_from_civil_injective.

(* the next civil day is the next day number, and the next weekday *)
Theorem days_from_civil_next_day : forall y m d, (1 <= m <= 12)%Z -> (1 <= d <= days_in_month y m)%Z ->
  let '(y', m', d') := next_day y m d in days_from_civil y' m' d' = (days_from_civil y m d + 1)%Z.
Proof. exact days_from_civil_next_day. Qed.
Print Assumptions days_from_civil_next_day.

Theorem weekday_next_day : forall y m d, (1 <= m <= 12)%Z -> (1 <= d <= days_in_month y m)%Z ->
  let '(y', m', d') := next_day y m d in weekday y' m' d' = ((weekday y m d + 1) mod 7)%Z.
Proof. exact weekday_next_day. Qed.
Print Assumptions weekday_next_day.

(* civil_from_days (CPython's _ord2ymd) and days_from_civil (_ymd2ord) are mutually inverse on the proleptic
   Gregorian calendar, for all years >= 1 (one 400-year cycle swept, then periodicity) *)
Theorem civil_from_days_inverse : forall y m d, (1 <= y)%Z -> (1 <= m <= 12)%Z -> (1 <= d <= days_in_month y m)%Z ->
  civil_from_days (days_from_civil y m d) = (y, m, d).
Proof. exact civil_from_days_inverse_lemma. Qed.
Print Assumptions civil_from_days_inverse.

Theorem civil_from_days_sound : forall n, (1 <= n)%Z ->
  let '(y, m, d) := civil_from_days n in
  (1 <= y)%Z /\ (1 <= m <= 12)%Z /\ (1 <= d <= days_in_month y m)%Z /\ days_from_civil y m d = n.
Proof. exact civil_from_days_sound. Qed.
Print Assumptions civil_from_days_sound.

(* the day-of-year table is the running sum of the month lengths *)
Theorem day_of_year_is_sum_of_months : forall t, (1 <= month t <= 12)%Z -> py_day_of_year t = doc_day_of_year t.
Proof. exact doy_ok. Qed.
Print Assumptions day_of_year_is_sum_of_months.

(* ---------------------------------------------------------------- formats *)

(* a format is the concatenation of its parts, and no part is dropped as unsupported *)
Theorem format_concat : forall ps t, separable ps ->
  decode_date_format (unparse ps) t = flat_map (render_part t) ps /\
  unsupported (scan (unparse ps) false false []) = [].
Proof. exact format_concat_lemma. Qed.
Print Assumptions format_concat.

(* literal text without ASCII letters and quotes passes through unchanged *)
Theorem literal_passthrough : forall s t, Forall (fun c => is_alpha c = false /\ c <> c_quote) s ->
  decode_date_format s t = s.
Proof. exact literal_passthrough_lemma. Qed.
Print Assumptions literal_passthrough.

(* quoted text passes through unchanged; a quote inside is written doubled *)
Theorem quoted_passthrough : forall s t, s <> [] -> hd 0%N s <> c_quote ->
  decode_date_format (c_quote :: escape_quotes s ++ [c_quote]) t = s.
Proof. exact quoted_passthrough_lemma. Qed.
Print Assumptions quoted_passthrough.

(* a format accepted by Formatting.__post_init__ never reaches an unsupported field when rendered (any string) *)
Theorem validated_formats_render : forall fmt, validate_format fmt = true ->
  unsupported (scan fmt false false []) = [].
Proof. exact validated_formats_render_lemma. Qed.
Print Assumptions validated_formats_render.

(* the pinned scanner: '' directly after a directive is emitted before it *)
Theorem pinned_doubled_quote_refuted :
  decode_date_format_pinned (L"d''d") (mkdt 2023 5 7 10 4 5 0) = L"'07" /\
  flat_map (render_part (mkdt 2023 5 7 10 4 5 0)) [PDir D_d; PQuote; PDir D_d] = L"7'7" /\
  unparse [PDir D_d; PQuote; PDir D_d] = L"d''d".
Proof. exact pinned_doubled_quote_refuted. Qed.
Print Assumptions pinned_doubled_quote_refuted.

(* the pinned validator rejects quoted literal text that the scanner renders *)
Theorem pinned_validator_refuted :
  validate_format_pinned (L"h 'o''clock' a") = false /\ validate_format (L"h 'o''clock' a") = true /\
  decode_date_format (L"h 'o''clock' a") (mkdt 2023 5 7 10 4 5 0) = L"10 o'clock am".
Proof. exact validator_pinned_refuted_lemma. Qed.
Print Assumptions pinned_validator_refuted.

(* ---------------------------------------------------------------- durations *)

(* A displayed duration, read back unit by unit (the digit runs of the string, weighted by the units shown),
   is the duration truncated to the smallest unit shown: all ms >= 0, all 21 unit pairs, any style. *)
Theorem duration_readback : forall ms style largest smallest, valid_pair largest smallest = true ->
  weighted_sum (units_shown largest smallest) (readback (duration_format ms style largest smallest))
  = (ms - ms mod unit_ms smallest)%N.
Proof. exact duration_readback_lemma. Qed.
Print Assumptions duration_readback.

(* the components are a proper mixed-radix decomposition: one per unit shown, each below its predecessor's unit *)
Theorem duration_parts_decompose : forall ms largest smallest, valid_pair largest smallest = true ->
  parts_total (duration_parts ms largest smallest) = (ms - ms mod unit_ms smallest)%N /\
  List.map fst (duration_parts ms largest smallest) = units_shown largest smallest /\
  parts_proper (duration_parts ms largest smallest).
Proof. exact duration_parts_lemma. Qed.
Print Assumptions duration_parts_decompose.

(* whatever the style and units, the numbers in the string are the components *)
Theorem duration_string_shows_parts : forall ms style largest smallest,
  readback (duration_format ms style largest smallest) = List.map snd (duration_parts ms largest smallest).
Proof. exact readback_format. Qed.
Print Assumptions duration_string_shows_parts.

(* compact style: milliseconds always have three digits ("1:02.005"), minutes and seconds two unless alone *)
Theorem compact_ms_three_digits : forall largest smallest v, (v < 1000)%N ->
  show_part S_COMPACT largest smallest (U_MS, v) = zfill 3 (nstr v).
Proof. exact compact_ms_three_digits_lemma. Qed.
Print Assumptions compact_ms_three_digits.

Theorem compact_two_digits : forall largest smallest u v, u = U_MINUTE \/ u = U_SECOND ->
  ~ (largest = u /\ smallest = u) -> (v < 100)%N ->
  show_part S_COMPACT largest smallest (u, v) = zfill 2 (nstr v).
Proof. exact compact_two_digits_lemma. Qed.
Print Assumptions compact_two_digits.

(* automatic units: the largest unit not exceeding the duration, down to the coarsest unit dividing it *)
Theorem auto_units_cover : forall ms L S, (0 < ms)%N -> is_unit S = true ->
  let '(s, l) := auto_units ms L S in
  is_unit l = true /\ is_unit s = true /\ (l <= s)%N /\
  (unit_ms l <= ms)%N /\ (forall u, is_unit u = true -> (unit_ms u <= ms)%N -> (unit_ms u <= unit_ms l)%N) /\
  (ms mod unit_ms s = 0)%N /\
  ((ms mod MS_WEEK)%N <> 0%N -> forall u, is_unit u = true -> (ms mod unit_ms u = 0)%N -> (unit_ms u <= unit_ms s)%N).
Proof. exact auto_units_cover_lemma. Qed.
Print Assumptions auto_units_cover.

(* ... so that with automatic units nothing is truncated *)
Theorem auto_units_readback_exact : forall ms style L S, is_unit S = true ->
  let '(s, l) := auto_units ms L S in
  weighted_sum (units_shown l s) (readback (duration_display ms style L S true)) = ms.
Proof. exact auto_readback_exact_lemma. Qed.
Print Assumptions auto_units_readback_exact.

(* ---------------------------------------------------------------- translator ties *)
Theorem gen_c14_field_map : GenC14.field_map = DateFormat.modelled_field_map.
Proof. exact gen_c14_field_map. Qed.
Print Assumptions gen_c14_field_map.
Theorem gen_c14_helpers : GenC14.helpers = DateFormat.modelled_helpers.
Proof. exact gen_c14_helpers. Qed.
Print Assumptions gen_c14_helpers.
Theorem gen_c14_strftime_names :
  GenC14.cpython_day_names = DateFormat.day_names /\ GenC14.cpython_day_abbrs = DateFormat.day_abbrs /\
  GenC14.cpython_month_names = DateFormat.month_names /\ GenC14.cpython_month_abbrs = DateFormat.month_abbrs /\
  GenC14.cpython_ampm = DateFormat.ampm_names.
Proof. exact gen_c14_strftime_names. Qed.
Print Assumptions gen_c14_strftime_names.

(* ---------------------------------------------------------------- non-vacuity *)
Example c14_date_example :
  let t := mkdt 2024 2 29 0 4 5 123456 in
  valid_dt t /\
  decode_date_format (L"EEEE d MMMM yyyy 'at' k:mm a, 'day' D, F. EEE ''yy S") t
    = L"Thursday 29 February 2024 at 24:04 am, day 60, 5. Thu '24 1" /\
  separable [PDir D_EEEE; PLit (L" "); PDir D_d; PQuoted (L"o'clock"); PLit (L":"); PQuote; PDir D_kk].
Proof.
  split; [apply valid_dtb_spec; reflexivity|]. split; [vm_compute; reflexivity|].
  vm_compute. repeat (split || constructor); try discriminate; try reflexivity.
Qed.

Example c14_duration_example :
  duration_format 788645006 S_LONG U_WEEK U_MS = L"1 week 2 days 3 hours 4 minutes 5 seconds 6 milliseconds" /\
  duration_format 788645006 S_COMPACT U_DAY U_MS = L"9:3:04:05.006" /\
  duration_format 788645006 S_SHORT U_HOUR U_MINUTE = L"219h 4m" /\
  readback (L"9:3:04:05.006") = [9; 3; 4; 5; 6]%N /\
  auto_units 788645006 U_WEEK U_WEEK = (U_MS, U_WEEK) /\ auto_units 7200000 1 1 = (U_HOUR, U_HOUR).
Proof. vm_compute. repeat split. Qed.
