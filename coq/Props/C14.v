(* C14 - displayed dates and durations agree with the stored value.  (work in progress) *)
From Coq Require Import ZArith NArith List Bool.
From NP Require Import Gen.GenC14 Model.PyBase Model.DateFormat Model.Duration Proofs.C14Gen.
Import ListNotations.

Theorem gen_c14_field_map : GenC14.field_map = DateFormat.modelled_field_map.
Proof. exact gen_c14_field_map. Qed.
Print Assumptions gen_c14_field_map.
