(* C08 - Formula text is a faithful infix rendering of the stored expression.
   Property theorems only; each is closed by [exact] of a lemma from Proofs/.

   Vocabulary (coq/Model):
     FormulaStack.run / step / formula_text   the stack machine of formula.Formula + TableFormulas.formula
     Expr.expr / compile                      expression trees and their stored post-fix node array
     Expr.show / text                         the reference infix rendering (tokens / characters)
     Expr.parse_ex                            token-level precedence-climbing parser
     Expr.wf                                  "parenthesised the way Numbers stores it"
     Expr.renderable                          literals have a text, arrays are rectangular and hold constants *)
From Coq Require Import ZArith NArith List Bool Arith.
From NP Require Import Gen.GenC08 Model.PyBase Model.FormulaStack Model.Expr Proofs.ExprP Proofs.ExprFuelP
  Proofs.FormulaStackP Proofs.NumLitP Proofs.DateP.
From NP Require Import Model.FunctionNames.
Import ListNotations.
Open Scope nat_scope.
Open Scope list_scope.

(* ---------- translator ties ---------- *)
(* constants.OPERATOR_PRECEDENCE as regenerated from the source is the table the model's precedence uses *)
Theorem gen_operator_precedence : GenC08.OPERATOR_PRECEDENCE = Expr.OPERATOR_PRECEDENCE.
Proof. reflexivity. Qed.
Print Assumptions gen_operator_precedence.

(* formula.NODE_FUNCTION_MAP as regenerated (key set, order, handler names, None entries) is the model's dispatch *)
Theorem gen_node_function_map : GenC08.NODE_FUNCTION_MAP = FormulaStack.NODE_FUNCTION_MAP.
Proof. reflexivity. Qed.
Print Assumptions gen_node_function_map.

(* the function id -> name table regenerated from /repo is the table the property was verified against
   (the table is its own reference: a swap of two names cannot be seen any other way) *)
Theorem gen_function_map_pinned : GenC08.FUNCTION_MAP = FunctionNames.pinned_function_map.
Proof. vm_compute. reflexivity. Qed.
Print Assumptions gen_function_map_pinned.

(* the levels that table induces: comparisons < & < + - < x / < ^ (unary minus and % bind tighter, see parse_un) *)
Theorem precedence_levels :
  map prec_tab [Eq; Ne; Lt; Gt; Le; Ge; Cat; Add; Sub; Mul; Div; Pow] = [1; 1; 1; 1; 1; 1; 2; 3; 3; 4; 4; 5].
Proof. reflexivity. Qed.
Print Assumptions precedence_levels.

(* ---------- the stack machine computes the reference rendering ---------- *)
(* for every function-name map, every renderable tree, every continuation k and stack st: running the
   stored node array of e leaves exactly one new value on the stack - the text of e (the raw reference
   object when e is a bare reference) - and continues with k; nothing below is touched, nothing fails *)
Theorem render_compile : forall (fmap : N -> option (list N)) (e : expr),
  renderable e = true ->
  forall (k : list node) (st : stack),
  run fmap (compile e ++ k) st = run fmap k (top_item fmap e :: st).
Proof. exact render_compile_lemma. Qed.
Print Assumptions render_compile.

Theorem top_item_text : forall (fmap : N -> option (list N)) (e : expr),
  str_of (top_item fmap e) = text fmap (show e).
Proof. exact str_of_top. Qed.
Print Assumptions top_item_text.

(* reading a formula is deterministic (a function) and never fails on a stored tree; its value is the
   infix rendering: operands in stored order around the operator glyph, arguments in stored order *)
Theorem formula_text_faithful : forall (fmap : N -> option (list N)) (e : expr),
  renderable e = true ->
  formula_text fmap (compile e) = Ok (text fmap (show e)).
Proof. exact formula_text_compile. Qed.
Print Assumptions formula_text_faithful.

(* ---------- the rendering denotes the tree ---------- *)
(* read with the regenerated precedence table, left-associative binary operators, unary minus above
   them and postfix % above that, the printed tokens parse back to the same tree: same operators on
   the same operands in the same order, same functions with the same arguments, same literals.
   [parse] is the executable parser with its own fuel (2 * tokens + 2, proved sufficient). *)
Theorem parse_show : forall e : expr, wf prec_tab e -> parse prec_tab (show e) = Some e.
Proof. exact (parse_show_lemma prec_tab). Qed.
Print Assumptions parse_show.

(* hence the token rendering determines the stored tree *)
Theorem show_injective : forall e1 e2 : expr, wf prec_tab e1 -> wf prec_tab e2 -> show e1 = show e2 -> e1 = e2.
Proof. exact (show_injective_lemma prec_tab). Qed.
Print Assumptions show_injective.

(* both halves of C08 in one statement: what the library reports for the stored array of a well-formed,
   renderable tree is the character rendering of a token sequence that reads back as that tree *)
Theorem formula_denotes_tree : forall (fmap : N -> option (list N)) (e : expr),
  renderable e = true -> wf prec_tab e ->
  exists ts, formula_text fmap (compile e) = Ok (text fmap ts) /\ parse prec_tab ts = Some e.
Proof. exact (fun fmap e => formula_denotes_tree_lemma fmap prec_tab e). Qed.
Print Assumptions formula_denotes_tree.

(* the same without reference to the fuel the executable parser happens to use *)
Theorem show_parse : forall e : expr, wf prec_tab e ->
  exists f0, forall f, f0 <= f -> parse_ex prec_tab f 0 (show e) = Some (e, []).
Proof. exact (show_parse_lemma prec_tab). Qed.
Print Assumptions show_parse.

(* the same for any assignment of levels to the operators *)
Theorem show_parse_any_precedence : forall (prec : binop -> nat) (e : expr), wf prec e ->
  exists f0, forall f, f0 <= f -> parse_ex prec f 0 (show e) = Some (e, []).
Proof. exact show_parse_lemma. Qed.
Print Assumptions show_parse_any_precedence.

(* the executable test the harness applies to every generated tree implies the hypothesis above *)
Theorem wfb_sound : forall e : expr, wfb prec_tab e = true -> wf prec_tab e.
Proof. exact (wfb_wf prec_tab). Qed.
Print Assumptions wfb_sound.

(* ---------- string literals ---------- *)
(* stripping the outer quotes and un-doubling (what Formula.text_archive does) recovers the stored string *)
Theorem string_literal_escape : forall s : list N,
  undouble_quotes (string_body (string_text s)) = s.
Proof. exact string_literal_escape_lemma. Qed.
Print Assumptions string_literal_escape.

(* character level: a scanner for quoted literals stops exactly at the end of the rendered literal
   and returns the stored string, whatever follows (except a further quote) *)
Theorem string_literal_scan : forall s rest : list N, hd_error rest <> Some 34%N ->
  scan_string (string_text s ++ rest) = Some (s, rest).
Proof. exact scan_string_text. Qed.
Print Assumptions string_literal_scan.

(* ---------- number literals ---------- *)
(* A positional text denotes (mantissa, exponent) = plain_val; the repr d[.ddd]e<exp> of the stored double
   denotes sci_val.  FULL STATEMENT (what C08 asks of number literals):
     forall ip fp exp dotted e, <shape> -> exists out,
       number_to_str (mantissa_text ip fp dotted ++ "e" ++ exp) = Ok out /\ dval_eq (plain_val out) (sci_val ... e)
   It is REFUTED on the pinned code (open known finding number-literal-positive-exponent): *)
Theorem number_literal_faithful_refuted :
  exists (ip fp exp : list N) (dotted : bool) (e : Z),
    digits ip /\ digits fp /\ (dotted = false -> fp = []) /\ length ip = 1 /\ py_int exp = Ok e /\ (e <> 0)%Z /\
    exists out, number_to_str (mantissa_text ip fp dotted ++ 101%N :: exp) = Ok out /\
                ~ dval_eq (plain_val out) (sci_val (mantissa_text ip fp dotted) e).
Proof. exact number_literal_refuted_lemma. Qed.
Print Assumptions number_literal_faithful_refuted.

(* and holds outside the finding's signature: negative exponents, and positive ones with one fraction digit *)
Theorem number_literal_faithful_partial : forall (ip fp exp : list N) (dotted : bool) (e : Z),
  digits ip -> digits fp -> (dotted = false -> fp = []) -> length ip = 1 -> py_int exp = Ok e ->
  ((e < 0)%Z \/ ((0 < e)%Z /\ length fp = 1)) ->
  exists out, number_to_str (mantissa_text ip fp dotted ++ 101%N :: exp) = Ok out /\
              dval_eq (plain_val out) (sci_val (mantissa_text ip fp dotted) e).
Proof. exact number_literal_partial_lemma. Qed.
Print Assumptions number_literal_faithful_partial.

(* a repr without exponent is printed as it is; integer literals print str(decimal_low) *)
Theorem number_literal_plain : forall rep : list N,
  existsb (N.eqb 101) rep = false -> number_to_str rep = Ok rep.
Proof. exact number_literal_plain_lemma. Qed.
Print Assumptions number_literal_plain.

(* the proposed repair (known_findings.d/C08-number-to-str-exponent.proposed-patch) satisfies the full
   statement for every exponent repr produces (positive exponents are >= 16 > number of fraction digits) *)
Theorem number_literal_repaired : forall (ip fp exp : list N) (dotted : bool) (e : Z),
  digits ip -> digits fp -> (dotted = false -> fp = []) -> length ip = 1 -> py_int exp = Ok e ->
  ((e < 0)%Z \/ (0 < e)%Z /\ (Z.of_nat (length fp) <= e)%Z) ->
  exists out, number_to_str_repaired (mantissa_text ip fp dotted ++ 101%N :: exp) = Ok out /\
              dval_eq (plain_val out) (sci_val (mantissa_text ip fp dotted) e).
Proof. exact number_literal_repaired_lemma. Qed.
Print Assumptions number_literal_repaired.

(* ---------- date literals ---------- *)
(* the (y, m, d) printed for a stored day number is the civil date with that day number (proleptic
   Gregorian day count written independently), month and day in range - for every day, all eras *)
Theorem date_literal_denotes : forall z y m d : Z, civil_from_days z = (y, m, d) ->
  days_from_civil y m d = z /\ (1 <= m <= 12)%Z /\ (1 <= d <= 31)%Z.
Proof. exact civil_roundtrip_lemma. Qed.
Print Assumptions date_literal_denotes.

(* and Formula.date prints exactly those numbers (years 1..9999: datetime's range) *)
Theorem date_literal_text : forall secs y m d : Z,
  civil_from_days (secs / 86400 + DAYS_0000_03_01_TO_2001_01_01)%Z = (y, m, d) -> (1 <= y <= 9999)%Z ->
  date_text secs = Ok (t_DATE_open ++ Z_to_str y ++ g_comma ++ Z_to_str m ++ g_comma ++ Z_to_str d ++ g_rpar).
Proof. exact date_text_shape. Qed.
Print Assumptions date_literal_text.

(* ---------- non-vacuity ---------- *)
Definition ex_num (n : N) : expr := EAtom (ANum DECIMAL_HIGH_INTEGER n []).
(* SUM(1,,{2,3;4,5})-(6+7)x-8%&"a""b" = TRUE  : every constructor *)
Definition ex_tree : expr :=
  EBin Eq
    (EBin Cat
      (EBin Sub
        (EFun 168 [Some (ex_num 1); None; Some (EArr [[ex_num 2; ex_num 3]; [ex_num 4; ex_num 5]])])
        (EBin Mul (EParen [EBin Add (ex_num 6) (ex_num 7)]) (ENeg (EPct (ex_num 8)))))
      (EAtom (AStr [97; 34; 98]%N)))
    (EAtom (ABool true)).

Example ex_tree_wf : wfb prec_tab ex_tree = true /\ renderable ex_tree = true.
Proof. split; reflexivity. Qed.

Example ex_tree_text :
  formula_text function_map (compile ex_tree)
  = Ok [83;85;77;40;49;44;44;123;50;44;51;59;52;44;53;125;41;45;40;54;43;55;41;215;45;56;37;38;34;97;34;34;98;34;61;84;82;85;69]%N.
Proof. vm_compute. reflexivity. Qed.

Example ex_tree_parse : parse prec_tab (show ex_tree) = Some ex_tree.
Proof. vm_compute. reflexivity. Qed.

(* without the stored LIST_NODE the same operators denote another tree: the hypothesis is needed *)
Example ex_not_wf :
  let e := EBin Mul (EBin Add (ex_num 6) (ex_num 7)) (ex_num 8) in
  wfb prec_tab e = false /\ parse prec_tab (show e) = Some (EBin Add (ex_num 6) (EBin Mul (ex_num 7) (ex_num 8))).
Proof. split; vm_compute; reflexivity. Qed.

(* a node array that is not the image of a tree can fail: the theorem's scope is real *)
Example ex_underflow : formula_text function_map [ADDITION_NODE] = Err PopEmpty.
Proof. reflexivity. Qed.

(* the epoch and a leap day; a literal the partial theorem covers and the refuting one *)
Example ex_epoch : date_text 0 = Ok [68;65;84;69;40;50;48;48;49;44;49;44;49;41]%N            (* DATE(2001,1,1) *)
  /\ date_text (86400 * 1154 + 86399) = Ok [68;65;84;69;40;50;48;48;52;44;50;44;50;57;41]%N. (* DATE(2004,2,29) *)
Proof. split; vm_compute; reflexivity. Qed.
Example ex_small_float : number_to_str [49;46;53;101;45;48;55]%N = Ok [48;46;48;48;48;48;48;48;49;53]%N.   (* 1.5e-07 -> 0.00000015 *)
Proof. vm_compute. reflexivity. Qed.
Example ex_big_float : number_to_str [49;46;50;51;52;101;43;50;48]%N                                     (* 1.234e+20 *)
  = Ok [49;50;51;52;48;48;48;48;48;48;48;48;48;48;48;48;48;48;48;48;48;48;48]%N                          (* 1.234e22: the defect *)
  /\ number_to_str_repaired [49;46;50;51;52;101;43;50;48]%N = Ok [49;50;51;52;48;48;48;48;48;48;48;48;48;48;48;48;48;48;48;48;48]%N.
Proof. split; vm_compute; reflexivity. Qed.
