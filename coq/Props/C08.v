(* C08 - Formula text is a faithful infix rendering of the stored expression.
   Property theorems only; each is closed by [exact] of a lemma from Proofs/.

   Vocabulary (coq/Model):
     FormulaStack.run / step / formula_text   the stack machine of formula.Formula + TableFormulas.formula
     Expr.expr / compile                      expression trees and their stored post-fix node array
     Expr.show / text                         the reference infix rendering (tokens / characters)
     Expr.parse_ex                            token-level precedence-climbing parser
     Expr.wf                                  "parenthesised the way Numbers stores it"
     Expr.renderable                          literals have a text, arrays are rectangular and hold constants *)
From Coq Require Import ZArith NArith List Bool Arith String.
From NP Require Import Gen.GenC08 Model.PyBase Model.FormulaStack Model.Expr Proofs.ExprP Proofs.FormulaStackP.
Import ListNotations.
Open Scope nat_scope.
Open Scope list_scope.

(* ---------- translator ties ---------- *)
(* constants.OPERATOR_PRECEDENCE as regenerated from the source is the table the model's precedence uses *)
Theorem gen_operator_precedence : GenC08.OPERATOR_PRECEDENCE = Expr.OPERATOR_PRECEDENCE.
Proof. reflexivity. Qed.
Print Assumptions gen_operator_precedence.

(* formula.NODE_FUNCTION_MAP as regenerated (key set, order, handler names, None entries) is the model's dispatch *)
Theorem gen_node_function_map : GenC08.NODE_FUNCTION_MAP = FormulaStack.NODE_FUNCTION_MAP.
Proof. reflexivity. Qed.
Print Assumptions gen_node_function_map.

(* the levels that table induces: comparisons < & < + - < x / < ^ (unary minus and % bind tighter, see parse_un) *)
Theorem precedence_levels :
  map prec_tab [Eq; Ne; Lt; Gt; Le; Ge; Cat; Add; Sub; Mul; Div; Pow] = [1; 1; 1; 1; 1; 1; 2; 3; 3; 4; 4; 5].
Proof. reflexivity. Qed.
Print Assumptions precedence_levels.

(* ---------- the stack machine computes the reference rendering ---------- *)
(* for every function-name map, every renderable tree, every continuation k and stack st: running the
   stored node array of e leaves exactly one new value on the stack - the text of e (the raw reference
   object when e is a bare reference) - and continues with k; nothing below is touched, nothing fails *)
Theorem render_compile : forall (fmap : N -> option (list N)) (e : expr) (k : list node) (st : stack),
  renderable e = true ->
  run fmap (compile e ++ k) st = run fmap k (top_item fmap e :: st).
Proof. intros fmap e k st H. exact (render_compile_lemma fmap e H k st). Qed.
Print Assumptions render_compile.

Theorem top_item_text : forall (fmap : N -> option (list N)) (e : expr),
  str_of (top_item fmap e) = text fmap (show e).
Proof. exact str_of_top. Qed.
Print Assumptions top_item_text.

(* reading a formula is deterministic (a function) and never fails on a stored tree; its value is the
   infix rendering: operands in stored order around the operator glyph, arguments in stored order *)
Theorem formula_text_faithful : forall (fmap : N -> option (list N)) (e : expr),
  renderable e = true ->
  formula_text fmap (compile e) = Ok (text fmap (show e)).
Proof. exact formula_text_compile. Qed.
Print Assumptions formula_text_faithful.

(* ---------- the rendering denotes the tree ---------- *)
(* read with the regenerated precedence table, left-associative binary operators, unary minus above
   them and postfix % above that, the printed tokens parse back to the same tree: same operators on
   the same operands in the same order, same functions with the same arguments, same literals.
   Fuel: there is a bound beyond which every amount of fuel gives this answer. *)
Theorem show_parse : forall e : expr, wf prec_tab e ->
  exists f0, forall f, f0 <= f -> parse_ex prec_tab f 0 (show e) = Some (e, []).
Proof. exact (show_parse_lemma prec_tab). Qed.
Print Assumptions show_parse.

(* the same for any assignment of levels to the operators *)
Theorem show_parse_any_precedence : forall (prec : binop -> nat) (e : expr), wf prec e ->
  exists f0, forall f, f0 <= f -> parse_ex prec f 0 (show e) = Some (e, []).
Proof. exact show_parse_lemma. Qed.
Print Assumptions show_parse_any_precedence.

(* the executable test the harness applies to every generated tree implies the hypothesis above *)
Theorem wfb_sound : forall e : expr, wfb prec_tab e = true -> wf prec_tab e.
Proof. exact (wfb_wf prec_tab). Qed.
Print Assumptions wfb_sound.

(* ---------- string literals ---------- *)
(* stripping the outer quotes and un-doubling (what Formula.text_archive does) recovers the stored string *)
Theorem string_literal_escape : forall s : list N,
  undouble_quotes (string_body (string_text s)) = s.
Proof. exact string_literal_escape_lemma. Qed.
Print Assumptions string_literal_escape.

(* character level: a scanner for quoted literals stops exactly at the end of the rendered literal
   and returns the stored string, whatever follows (except a further quote) *)
Theorem string_literal_scan : forall s rest : list N, hd_error rest <> Some 34%N ->
  scan_string (string_text s ++ rest) = Some (s, rest).
Proof. exact scan_string_text. Qed.
Print Assumptions string_literal_scan.

(* ---------- non-vacuity ---------- *)
Definition ex_num (n : N) : expr := EAtom (ANum DECIMAL_HIGH_INTEGER n []).
(* SUM(1,,{2,3;4,5})-(6+7)x-8%&"a""b" = TRUE  : every constructor *)
Definition ex_tree : expr :=
  EBin Eq
    (EBin Cat
      (EBin Sub
        (EFun 168 [Some (ex_num 1); None; Some (EArr [[ex_num 2; ex_num 3]; [ex_num 4; ex_num 5]])])
        (EBin Mul (EParen [EBin Add (ex_num 6) (ex_num 7)]) (ENeg (EPct (ex_num 8)))))
      (EAtom (AStr [97; 34; 98]%N)))
    (EAtom (ABool true)).

Example ex_tree_wf : wfb prec_tab ex_tree = true /\ renderable ex_tree = true.
Proof. split; reflexivity. Qed.

Example ex_tree_text :
  formula_text function_map (compile ex_tree)
  = Ok [83;85;77;40;49;44;44;123;50;44;51;59;52;44;53;125;41;45;40;54;43;55;41;215;45;56;37;38;34;97;34;34;98;34;61;84;82;85;69]%N.
Proof. vm_compute. reflexivity. Qed.

Example ex_tree_parse : parse prec_tab (show ex_tree) = Some ex_tree.
Proof. vm_compute. reflexivity. Qed.

(* without the stored LIST_NODE the same operators denote another tree: the hypothesis is needed *)
Example ex_not_wf :
  let e := EBin Mul (EBin Add (ex_num 6) (ex_num 7)) (ex_num 8) in
  wfb prec_tab e = false /\ parse prec_tab (show e) = Some (EBin Add (ex_num 6) (EBin Mul (ex_num 7) (ex_num 8))).
Proof. split; vm_compute; reflexivity. Qed.

(* a node array that is not the image of a tree can fail: the theorem's scope is real *)
Example ex_underflow : formula_text function_map [ADDITION_NODE] = Err PopEmpty.
Proof. reflexivity. Qed.
