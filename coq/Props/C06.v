(* C06 - what is read does not depend on meaning-preserving choices of file layout.
   Property theorems only; each is closed by [exact] of a lemma from Proofs/.
   One group per layout dimension.  Chunk boundaries / stored-vs-compressed chunks are C05's theorem
   [chunking_independent] (Props/C05.v) and are not restated here.  Zip compression method and the
   single-file / package-folder forms are library behaviour (zipfile, os): both reduce to the list of members the
   store is filled from, which is where [member_order_irrelevant] starts. *)
From Coq Require Import ZArith NArith List Bool Permutation Sorted.
From NP Require Import Gen.GenConsts Model.PyBase Model.Assoc Model.DataList Model.TileCodec Model.RowMap Model.ObjStore
  Proofs.AssocP Proofs.DataListPermP Proofs.OffsetsP Proofs.RowMapP Proofs.RowMapWriterP Proofs.ObjStoreP.
Import ListNotations.

(* ---------- lookup lists (strings, formats, styles, formulas, rich text ...): DataLists.add_table (repaired) ---------- *)
(* a lookup by key finds the entry carrying that key, wherever the entry sits *)
Theorem datalist_finds : forall (V : Type) (es : list (Z * V)) k v, NoDup (map fst es) -> In (k, v) es ->
  lookup_value V (add_table V es) k = Ok v.
Proof. exact datalist_finds_lemma. Qed.
Print Assumptions datalist_finds.

(* any permutation of the stored entries gives the same lookups (hits and misses) *)
Theorem datalist_perm : forall (V : Type) (l1 l2 : list (Z * V)), Permutation l1 l2 -> NoDup (map fst l1) ->
  forall k, lookup_value V (add_table V l1) k = lookup_value V (add_table V l2) k.
Proof. exact datalist_perm_lemma. Qed.
Print Assumptions datalist_perm.

(* ... and the same next free key *)
Theorem datalist_next_key_perm : forall (V : Type) (l1 l2 : list (Z * V)), Permutation l1 l2 ->
  next_key (add_table V l1) = next_key (add_table V l2).
Proof. exact next_key_perm_lemma. Qed.
Print Assumptions datalist_next_key_perm.

(* a key is reported missing only when no entry carries it (no NoDup premise needed) *)
Theorem datalist_present : forall (V : Type) (es : list (Z * V)) k, In k (map fst es) ->
  exists v, lookup_value V (add_table V es) k = Ok v /\ In (k, v) es.
Proof. exact datalist_present_lemma. Qed.
Print Assumptions datalist_present.

Theorem datalist_absent : forall (V : Type) (es : list (Z * V)) k, ~ In k (map fst es) ->
  lookup_value V (add_table V es) k = Err KeyError.
Proof. exact datalist_absent_lemma. Qed.
Print Assumptions datalist_absent.

(* text never silently degrades: for a table whose text cells all name keys of the string list, table_string returns
   the entry's string whatever the fallback value is - the KeyError -> "" branch is not taken *)
Theorem no_silent_empty : forall (V : Type) (es : list (Z * V)) cell_keys, text_cells_valid V es cell_keys ->
  forall k, In k cell_keys ->
  exists v, In (k, v) es /\ lookup_value V (add_table V es) k = Ok v /\
            forall fallback, table_string V fallback (add_table V es) k = v.
Proof. exact no_silent_empty_lemma. Qed.
Print Assumptions no_silent_empty.

(* the pinned indexer loses the entry of [(2,"b");(1,"a")] stored under key 1: text "a" is read as "" *)
Theorem datalist_finds_pinned_refuted :
  exists (es : list (Z * list N)) k v, NoDup (map fst es) /\ In (k, v) es /\
    lookup_value (list N) (add_table_pinned (list N) es) k = Err KeyError /\
    table_string (list N) [] (add_table_pinned (list N) es) k = [] /\ v <> [].
Proof. exact datalist_finds_pinned_refuted_lemma. Qed.
Print Assumptions datalist_finds_pinned_refuted.

(* ... and is right exactly in the layout every shipped fixture uses: strictly ascending positive keys *)
Theorem datalist_pinned_partial : forall (V : Type) (es : list (Z * V)),
  StronglySorted Z.lt (map fst es) -> Forall (fun e => (0 < fst e)%Z) es -> add_table_pinned V es = add_table V es.
Proof. exact pinned_ascending_lemma. Qed.
Print Assumptions datalist_pinned_partial.

(* ---------- byte versus 4-byte-unit cell offsets: get_storage_buffers_for_row ---------- *)
Theorem offsets_narrow_wide : forall st offs n,
  Forall (fun o => o = (-1)%Z \/ (0 <= o /\ o mod 4 = 0)%Z) offs ->
  split_row false st offs n = split_row true st (map (fun o => (o / 4)%Z) offs) n.
Proof. exact offsets_narrow_wide_lemma. Qed.
Print Assumptions offsets_narrow_wide.

Theorem offsets_to_wide : forall st offs n, Forall (fun o => (o < 0 \/ o mod 4 = 0)%Z) offs ->
  split_row false st offs n = split_row true st (map to_wide offs) n.
Proof. exact offsets_to_wide_lemma. Qed.
Print Assumptions offsets_to_wide.

Theorem offsets_to_narrow : forall st offs n, split_row true st offs n = split_row false st (map to_narrow offs) n.
Proof. exact offsets_to_narrow_lemma. Qed.
Print Assumptions offsets_to_narrow.

(* ---------- rows: row_storage_map (repaired) + storage_buffers + storage_buffer ---------- *)
(* every stored row is reported at tileid * tile_size + tile_row_index, cell by cell *)
Theorem row_map_by_declared_index : forall t tl r col, NoDup (map fst (stored_rows t)) ->
  In tl (tiles t) -> In r (t_rows tl) ->
  storage_buffer t (t_id tl * eff_tile_size t + s_index r) col = Ok (cell_at (Some (decode_srow (ncols t) r)) col).
Proof. exact row_map_by_declared_index_lemma. Qed.
Print Assumptions row_map_by_declared_index.

(* a row no storage record declares is empty *)
Theorem unstored_row_empty : forall t row col, ~ In row (map fst (stored_rows t)) -> (row < nrows t)%N ->
  storage_buffer t row col = Ok None.
Proof. exact unstored_row_empty_lemma. Qed.
Print Assumptions unstored_row_empty.

(* header records - for empty rows or any others - are not consulted *)
Theorem empty_row_headers_irrelevant : forall t h row col, storage_buffer (with_hdrs t h) row col = storage_buffer t row col.
Proof. exact headers_irrelevant_lemma. Qed.
Print Assumptions empty_row_headers_irrelevant.

(* two layouts with the same cell-carrying rows read the same: order of tiles and rowInfos, how rows are split into
   tiles, rowInfos that store no cell, header records *)
Theorem stored_rows_layout_irrelevant : forall t1 t2, nrows t1 = nrows t2 ->
  NoDup (map fst (stored_rows t1)) -> NoDup (map fst (stored_rows t2)) ->
  Permutation (filter nonblank (stored_rows t1)) (filter nonblank (stored_rows t2)) ->
  forall row col, (row < nrows t1)%N -> storage_buffer t1 row col = storage_buffer t2 row col.
Proof. exact stored_rows_layout_irrelevant_lemma. Qed.
Print Assumptions stored_rows_layout_irrelevant.

(* the pinned mapping counted header records: refuted by an empty row with a header record and no rowInfo
   (row 7 of tests/data/issue-66-collab.numbers); right when the header records are exactly the stored rows *)
Theorem row_map_pinned_refuted :
  exists t tl r col, NoDup (map fst (stored_rows t)) /\ In tl (tiles t) /\ In r (t_rows tl) /\
    storage_buffer_pinned t (t_id tl * eff_tile_size t + s_index r) col <> Ok (cell_at (Some (decode_srow (ncols t) r)) col) /\
    storage_buffer_pinned t 1 0%nat = Ok (Some [5; 6; 7; 8]%N) /\ storage_buffer_pinned t 2 0%nat = Ok None.
Proof. exact row_map_pinned_refuted_lemma. Qed.
Print Assumptions row_map_pinned_refuted.

Theorem row_map_pinned_partial : forall t, concat (hdrs t) = map fst (stored_rows t) ->
  forall row col, storage_buffer_pinned t row col = storage_buffer t row col.
Proof. exact row_map_pinned_agrees_lemma. Qed.
Print Assumptions row_map_pinned_partial.

(* the layout the library itself writes (and every fixture but one uses): rowInfos in row order, one per row.  Reading
   by declared index is then reading by position ... *)
Theorem row_map_sequential : forall t n, map fst (stored_rows t) = map N.of_nat (seq 0 n) ->
  forall r col, (N.of_nat r < nrows t)%N ->
  storage_buffer t (N.of_nat r) col = Ok (cell_at (nth_error (storage_buffers t) r) col).
Proof. exact row_map_sequential_lemma. Qed.
Print Assumptions row_map_sequential.

(* ... so C01's storage round trip (stated on the concatenation of the written tiles) is what the repaired reader
   returns for a table written by TileCodec.encode_table - any number of rows, tiles of 256 *)
Theorem written_table_read : forall rows ts nc h, encode_table rows = Ok ts ->
  forall r col, (r < length rows)%nat ->
  storage_buffer (written_table (N.of_nat (length rows)) nc h ts) (N.of_nat r) col =
  Ok (cell_at (nth_error (decode_table nc ts) r) col).
Proof. exact written_table_read_lemma. Qed.
Print Assumptions written_table_read.

Theorem default_tile_size_is_source_constant : GenConsts.DEFAULT_TILE_SIZE = Z.of_N RowMap.DEFAULT_TILE_SIZE.
Proof. reflexivity. Qed.
Print Assumptions default_tile_size_is_source_constant.

(* ---------- container member order: ObjectStore filled member by member ---------- *)
Theorem member_order_irrelevant : forall (B O : Type) (ms1 ms2 : list (member B O)), Permutation ms1 ms2 ->
  NoDup (map m_name ms1) -> NoDup (map fst (object_items B O ms1)) ->
  (forall id, get_object B O ms1 id = get_object B O ms2 id) /\
  (forall id, get_filename B O ms1 id = get_filename B O ms2 id) /\
  (forall name, get_file B O ms1 name = get_file B O ms2 name).
Proof. exact member_order_irrelevant_lemma. Qed.
Print Assumptions member_order_irrelevant.

Theorem store_finds : forall (B O : Type) (ms : list (member B O)) m id o, NoDup (map fst (object_items B O ms)) ->
  In m ms -> In (id, o) (m_archives m) ->
  get_object B O ms id = Some o /\ get_filename B O ms id = Some (m_name m).
Proof. exact store_finds_lemma. Qed.
Print Assumptions store_finds.

Theorem max_id_member_order : forall (B O : Type) (ms1 ms2 : list (member B O)), Permutation ms1 ms2 ->
  max_id B O ms1 = max_id B O ms2.
Proof. exact max_id_perm_lemma. Qed.
Print Assumptions max_id_member_order.

(* find_refs returns the same identifiers; their ORDER follows the member order (tables of a sheet are listed in that
   order - which is why the property compares tables by name) *)
Theorem find_refs_member_order : forall (B O : Type) (is_type : O -> bool) (ms1 ms2 : list (member B O)),
  Permutation ms1 ms2 -> NoDup (map fst (object_items B O ms1)) ->
  Permutation (find_refs B O is_type ms1) (find_refs B O is_type ms2).
Proof. exact find_refs_perm_lemma. Qed.
Print Assumptions find_refs_member_order.

(* ---------- non-vacuity ---------- *)
Example ex_perm_lookup :
  map (fun k => lookup_value (list N) (add_table (list N) [(2%Z, [98%N]); (1%Z, [97%N]); (3%Z, [99%N])]) k) [1; 2; 3; 4]%Z =
  map (fun k => lookup_value (list N) (add_table (list N) [(1%Z, [97%N]); (2%Z, [98%N]); (3%Z, [99%N])]) k) [1; 2; 3; 4]%Z.
Proof. reflexivity. Qed.

Example ex_repaired_row_map :
  (storage_buffer collab_shape 0 0%nat, storage_buffer collab_shape 1 0%nat, storage_buffer collab_shape 2 0%nat) =
  (Ok (Some [1; 2; 3; 4]%N), Ok None, Ok (Some [5; 6; 7; 8]%N)).
Proof. reflexivity. Qed.

Example ex_offsets :
  split_row false [1; 2; 3; 4; 5; 6; 7; 8]%N [0; -1; 4]%Z 3 = split_row true [1; 2; 3; 4; 5; 6; 7; 8]%N [0; -1; 1]%Z 3 /\
  split_row false [1; 2; 3; 4; 5; 6; 7; 8]%N [0; -1; 4]%Z 3 = [Some [1; 2; 3; 4]%N; None; Some [5; 6; 7; 8]%N].
Proof. split; reflexivity. Qed.

Example ex_find_refs_order :
  let a := {| m_name := [97]%N; m_blob := tt; m_archives := [(1%N, true)] |} in
  let b := {| m_name := [98]%N; m_blob := tt; m_archives := [(2%N, true)] |} in
  find_refs unit bool (fun x => x) [a; b] = [1; 2]%N /\ find_refs unit bool (fun x => x) [b; a] = [2; 1]%N.
Proof. split; reflexivity. Qed.
