(* C05 - IWA archive decoding and encoding are mutually inverse and chunking-independent.
   Property theorems only; each is closed by [exact] of a lemma from Proofs/.
   snappy enters as universally quantified functions with the two named
   hypotheses; protobuf message contents are opaque byte strings; the archive
   header is a generic wire message, so fields no schema knows are ordinary
   entries of the theorems' quantifiers. *)
From Coq Require Import NArith List Bool.
From NP Require Import Gen.GenIWA Model.PyBase Model.Varint Model.Wire Model.IWA
  Proofs.VarintP Proofs.WireP Proofs.IWAP Proofs.IWASegP.
Import ListNotations.
Open Scope N_scope.

(* varint decode inverts encode, whatever follows in the buffer (64-bit values and
   the 32-bit length prefix the segment reader uses) *)
Theorem varint_roundtrip : forall n r, n < 18446744073709551616 ->
  decode_varint64 (encode_varint n ++ r) = Ok (n, r).
Proof. exact varint64_roundtrip. Qed.
Print Assumptions varint_roundtrip.

Theorem varint32_prefix_roundtrip : forall n r, n < 4294967296 ->
  decode_varint32 (encode_varint n ++ r) = Ok (n, r).
Proof. exact varint32_roundtrip. Qed.
Print Assumptions varint32_prefix_roundtrip.

(* wire messages: parsing inverts serialisation; unknown fields are just more entries *)
Theorem wire_roundtrip : forall m, wf_msg m -> parse_wire (ser_wire m) = Some m.
Proof. exact wire_roundtrip_lemma. Qed.
Print Assumptions wire_roundtrip.

(* chunk framing: every byte string (length 0, 65535, 65536, 65537, ... - no bound)
   survives to_buffer's framing followed by _decompress_all *)
Theorem chunks_roundtrip : forall (uncompress : bytes -> option bytes) (compress : bytes -> bytes),
  (forall x, uncompress (compress x) = Some x) ->                          (* snappy_roundtrip *)
  (forall x, lenN x <= 65536 -> lenN (compress x) < 16777216) ->           (* snappy_bound *)
  forall d, exists file, to_chunks compress d = Ok file /\ decompress_all uncompress file = Ok d.
Proof. exact chunks_roundtrip_lemma. Qed.
Print Assumptions chunks_roundtrip.

(* the decoded stream does not depend on where the stream was cut nor on whether a
   piece was stored (true) or compressed (false): any list of pieces, any cut points *)
Theorem chunking_independent : forall (uncompress : bytes -> option bytes) (compress : bytes -> bytes)
  (pieces : list (bytes * bool)),
  Forall (piece_ok uncompress compress) pieces ->
  exists file, frames (map (payload_of compress) pieces) = Ok file /\
               decompress_all uncompress file = Ok (concat (map fst pieces)).
Proof. exact chunking_independent_lemma. Qed.
Print Assumptions chunking_independent.

(* container rules of every encoded file: it splits exactly into frames, each with
   marker byte 0, a 3-byte little-endian length equal to the payload length and at
   most 64 KiB of source data *)
Theorem container_rules : forall (uncompress : bytes -> option bytes) (compress : bytes -> bytes),
  (forall x, uncompress (compress x) = Some x) ->
  (forall x, lenN x <= 65536 -> lenN (compress x) < 16777216) ->
  forall d file, to_chunks compress d = Ok file ->
  exists l, split_frames file = Some l /\ Forall (fun fr => chunk_ok uncompress fr = true) l /\
            concat (map (fun fr => fst fr ++ snd fr) l) = file.
Proof. exact container_rules_lemma. Qed.
Print Assumptions container_rules.

(* and the sniffer accepts it *)
Theorem encoded_is_iwa : forall (uncompress : bytes -> option bytes) (compress : bytes -> bytes),
  (forall x, uncompress (compress x) = Some x) ->
  (forall x, lenN x <= 65536 -> lenN (compress x) < 16777216) ->
  forall fixed d file, to_chunks compress d = Ok file -> is_iwa_file fixed file = Ok true.
Proof. exact to_chunks_is_iwa. Qed.
Print Assumptions encoded_is_iwa.

(* the (repaired) sniffer accepts exactly the byte strings that are a sequence of frames:
   marker byte 0, 3-byte little-endian length, that many payload bytes - and never raises *)
Theorem is_iwa_iff : forall data, Forall (fun x => x < 256) data ->
  (is_iwa_file true data = Ok true <-> exists ps, data = concat (map framed ps) /\ Forall small ps).
Proof. exact is_iwa_iff_lemma. Qed.
Print Assumptions is_iwa_iff.

(* one archive segment: from_buffer inverts to_buffer, the header returned carries
   the rewritten lengths, and those lengths are the message sizes.
   seg_ok = every message_infos entry is a well-formed message, one entry per
   object, sizes below 4 GiB, the header is not empty, class lookups succeed. *)
Theorem segment_roundtrip : forall (known_type : N -> bool) seg r, seg_ok known_type seg ->
  c05_segment_from_buffer known_type (segment_to_buffer seg ++ r) = Ok (norm_seg seg, r) /\
  map mi_length (hv_infos (wire_view (fst (norm_seg seg)))) = map lenN (snd seg).
Proof. exact segment_roundtrip_lemma. Qed.
Print Assumptions segment_roundtrip.

(* a whole uncompressed stream: same segments, same order, identical message bytes *)
Theorem stream_roundtrip : forall (known_type : N -> bool) segs, Forall (seg_ok known_type) segs ->
  c05_segments known_type (stream_of segs) = Ok (map norm_seg segs).
Proof. exact segments_roundtrip_lemma. Qed.
Print Assumptions stream_roundtrip.

(* a whole file: IWAFile.from_buffer (to_buffer f) is f with its chunks merged *)
Theorem file_roundtrip : forall (known_type : N -> bool) (uncompress : bytes -> option bytes) (compress : bytes -> bytes),
  (forall x, uncompress (compress x) = Some x) ->
  (forall x, lenN x <= 65536 -> lenN (compress x) < 16777216) ->
  forall chunks named, Forall (seg_ok known_type) (concat chunks) ->
  exists file, file_to_buffer compress chunks = Ok file /\
               c05_file_from_buffer uncompress known_type file named = Ok (normalise chunks).
Proof. exact file_roundtrip_lemma. Qed.
Print Assumptions file_roundtrip.

(* rewriting the lengths twice is rewriting them once: decode . encode is idempotent on headers *)
Theorem set_lengths_idempotent : forall h ls, header_ok h -> length (len_fields 2 h) = length ls ->
  Forall (fun l => l < 4294967296) ls ->
  set_lengths (set_lengths h ls) ls = set_lengths h ls.
Proof. exact set_lengths_idem. Qed.
Print Assumptions set_lengths_idempotent.

(* translator tie: the schema field numbers / types and the framing literals in /repo are the ones the model mirrors *)
Theorem gen_iwa_constants :
  [GenIWA.f_identifier; GenIWA.f_message_infos; GenIWA.f_should_merge;
   GenIWA.f_mi_type; GenIWA.f_mi_length; GenIWA.f_mi_base_message_index] = IWA.modelled_fields /\
  GenIWA.ints_to_buffer = IWA.modelled_ints_to_buffer /\
  GenIWA.ints_decompress_all = IWA.modelled_ints_unframe /\
  GenIWA.ints_is_iwa_file = IWA.modelled_ints_unframe.
Proof. repeat split; reflexivity. Qed.
Print Assumptions gen_iwa_constants.

(* ---------- non-vacuity ---------- *)
(* a toy codec satisfying both snappy hypotheses: one marker byte in front *)
Definition toy_compress (x : bytes) : bytes := 255 :: x.
Definition toy_uncompress (x : bytes) : option bytes := match x with 255 :: r => Some r | _ => None end.

Example chunks_example :
  let d := repeat 7 (N.to_nat 65537) in
  match to_chunks toy_compress d with
  | Ok file => (lenN file =? 65537 + 2 * 5) && match decompress_all toy_uncompress file with Ok d' => lenN d' =? 65537 | Err _ => false end
  | Err _ => false
  end = true.
Proof. vm_compute. reflexivity. Qed.

(* header: identifier 7, two message_infos (type 1 / stale length 0, type 2006 / stale length 9),
   an unknown field 100; payloads of 3 and 2 bytes *)
Definition ex_header : wmsg :=
  [(1, WVarint 7); (2, WLen [8;1;18;3;1;0;5;24;0]); (2, WLen [8;214;15;24;9]); (100, WVarint 5)].
Example segment_example :
  c05_segment_from_buffer (fun _ => true) (segment_to_buffer (ex_header, [[10;1;65]; [8;1]]) ++ [9; 9]) =
  Ok ((set_lengths ex_header [3; 2], [[10;1;65]; [8;1]]), [9; 9]) /\
  map mi_length (hv_infos (wire_view (set_lengths ex_header [3; 2]))) = [3; 2] /\
  wf_msgb (set_lengths ex_header [3; 2]) = true.
Proof. vm_compute. repeat split. Qed.
