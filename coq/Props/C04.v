(* C04 - cell storage records decode to exactly what was encoded, field by field.
   Property theorems only; each is closed by [exact] of a lemma from Proofs/. *)
From Coq Require Import ZArith NArith List Bool.
From NP Require Import Gen.GenCellRecord Model.PyBase Model.CellRecord Proofs.CellRecordP Proofs.CellRecordGen.
Import ListNotations.

(* generic: for ANY layout, a walking decoder inverts an emitting encoder whenever the flag word
   agrees with the presence of the fields - no enumeration of subsets *)
Theorem walk_roundtrip_generic : forall Ls flags vs rest,
  agree Ls flags vs -> fits Ls vs ->
  walk Ls flags (emit vs ++ rest) = Ok (mask Ls vs, rest).
Proof. exact walk_spec. Qed.
Print Assumptions walk_roundtrip_generic.

(* decoding follows the documented layout: for every subset of the 21 documented flag bits and all
   field values, the decoder reports exactly the interpreted fields, each from its own slot;
   uninterpreted fields are skipped in place and never shift another field *)
Theorem decode_follows_layout : forall t extras vs,
  fits doc_layout vs -> known_type t = true -> (extras < 256)%N -> payload_ok t vs = true ->
  decode (ref_encode t extras vs) = Ok (view t extras (flags_of doc_layout vs) vs).
Proof. exact decode_ref_encode. Qed.
Print Assumptions decode_follows_layout.

(* the library's own encoder is the documented-layout encoder restricted to the fields it writes *)
Theorem encoder_follows_layout : forall c,
  encode c = ref_encode (kind_type (c_kind c)) (extras6 c) (cell_vals c).
Proof. exact encode_is_ref_encode. Qed.
Print Assumptions encoder_follows_layout.

(* every kind, all 2^12 subsets of optional references at once *)
Theorem record_roundtrip : forall c, wf_cell c = true ->
  decode (encode c) =
  Ok {| d_type := kind_type (c_kind c); d_extras := extras6 c;
        d_flags := unpack_i32 (le_bytes 4 (flags_of doc_layout (cell_vals c)));
        d_vals := firstn 19 (cell_vals c) |}.
Proof. exact record_roundtrip_lemma. Qed.
Print Assumptions record_roundtrip.

(* ... field by field: same kind, same payload, same value for every attribute, nothing shifted *)
Theorem record_fields : forall c d, wf_cell c = true -> decode (encode c) = Ok d ->
  d_type d = kind_type (c_kind c) /\
  (forall b w, kind_slot (c_kind c) = Some (b, w) -> nth (N.to_nat b) (d_vals d) None = Some (c_payload c)) /\
  get_id d 4 = c_rich c /\ get_id d 5 = c_cell_style c /\ get_id d 6 = c_text_style c /\
  get_id d 9 = c_formula c /\ get_id d 10 = c_control c /\ get_id d 12 = c_suggest c /\
  get_id d 13 = c_num_fmt c /\ get_id d 14 = c_cur_fmt c /\ get_id d 15 = c_date_fmt c /\
  get_id d 16 = c_dur_fmt c /\ get_id d 17 = c_text_fmt c /\ get_id d 18 = c_bool_fmt c /\
  nth 7 (d_vals d) None = None /\ nth 8 (d_vals d) None = None /\ nth 11 (d_vals d) None = None.
Proof. exact record_fields_lemma. Qed.
Print Assumptions record_fields.

Theorem i32_roundtrip : forall z, i32_ok z = true -> unpack_i32 (pack_i32 z) = z.
Proof. exact unpack_pack_i32. Qed.
Print Assumptions i32_roundtrip.

Theorem length_and_alignment : forall c, wf_cell c = true ->
  length (encode c) = (12 + length (emit (cell_vals c)))%nat /\ Nat.modulo (length (encode c)) 4 = 0%nat.
Proof. exact length_and_alignment_lemma. Qed.
Print Assumptions length_and_alignment.

(* translator tie: the flag chains in /repo's cell.py are the model's tables *)
Theorem gen_cell_chains :
  GenCellRecord.decode_chain = CellRecord.decode_chain_table /\
  GenCellRecord.encode_chain = CellRecord.encode_chain_table.
Proof. exact gen_cell_chains. Qed.
Print Assumptions gen_cell_chains.

(* non-vacuity: a rich-text cell with style, formula and number format; a record with uninterpreted fields *)
Example rich_cell_wf :
  let c := {| c_kind := KRichText; c_payload := []; c_string_id_set := false;
              c_rich := Some 7%Z; c_cell_style := Some (-3)%Z; c_text_style := None;
              c_formula := Some 2147483647%Z; c_control := None; c_suggest := None;
              c_num_fmt := Some 9%Z; c_cur_fmt := None; c_date_fmt := None;
              c_dur_fmt := None; c_text_fmt := None; c_bool_fmt := None |} in
  wf_cell c = true /\ length (encode c) = 28%nat.
Proof. vm_compute. split; reflexivity. Qed.

Example skipped_fields_do_not_shift :
  match decode (ref_encode 2 0
      [Some (repeat 1%N 16); None; None; None; None; None; None;
       Some [170;170;170;170]%N; Some [187;187;187;187]%N; Some [9;0;0;0]%N; None;
       Some [204;204;204;204]%N; Some [5;0;0;0]%N; None; None; None; None; None; None; None; None]) with
  | Ok d => get_id d 9 = Some 9%Z /\ get_id d 12 = Some 5%Z
  | Err _ => False
  end.
Proof. vm_compute. split; reflexivity. Qed.
