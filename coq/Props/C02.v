(* C02 - re-saving an unmodified document preserves everything the library reads.
   Property theorems only; each is closed by [exact] of a lemma from Proofs/.
   The modelled core is the storage pipeline: records, rows/tiles, string keys.  Formulas, formats, rich text
   and styles are protobuf objects copied through the object store; for them the whole-document snapshot
   comparison over all fixtures (harness/c02.py) is what decides. *)
From Coq Require Import ZArith NArith List Bool.
From NP Require Import Model.PyBase Model.CellRecord Model.TileCodec Model.DataList
  Proofs.A1P Proofs.CellRecordP Proofs.TileCodecP Proofs.DataListP Proofs.ResaveP.
Import ListNotations.

(* the cell held after reading a written record is the cell that was written (kind, payload, all twelve reference ids) *)
Theorem resave_cell_fixpoint : forall c d, wf_cell c = true -> decode (encode c) = Ok d ->
  cell_from (c_kind c) (c_payload c) (c_string_id_set c) d = c.
Proof. exact resave_cell_fixpoint. Qed.
Print Assumptions resave_cell_fixpoint.

(* a second save/open cycle changes nothing further *)
Theorem resave_bytes_stable : forall c d, wf_cell c = true -> decode (encode c) = Ok d ->
  encode (cell_from (c_kind c) (c_payload c) (c_string_id_set c) d) = encode c.
Proof. exact resave_bytes_stable. Qed.
Print Assumptions resave_bytes_stable.

(* records arriving from a file may carry fields the library does not interpret (any subset of the 21 bits):
   the view read from them is the interpreted part, independent of the uninterpreted fields *)
Theorem read_view_of_any_record : forall t extras vs,
  fits doc_layout vs -> known_type t = true -> (extras < 256)%N -> payload_ok t vs = true ->
  decode (ref_encode t extras vs) = Ok (view t extras (flags_of doc_layout vs) vs).
Proof. exact decode_ref_encode. Qed.
Print Assumptions read_view_of_any_record.

Theorem uninterpreted_dropped_only :
  uninterpreted_bits = [7; 8; 11; 19; 20]%N /\
  interpreted_bits = ([0; 1; 2; 3] ++ map N.log2 encode_chain_table)%N.
Proof. exact uninterpreted_dropped_only_lemma. Qed.
Print Assumptions uninterpreted_dropped_only.

(* the table storage written on save decodes to the grid of records that was held in memory: any number of tiles *)
Theorem resave_table_storage : forall ncols rows tiles, rect ncols rows ->
  encode_table rows = Ok tiles -> decode_table ncols tiles = rows.
Proof. exact table_storage_roundtrip_lemma. Qed.
Print Assumptions resave_table_storage.

(* init_table_strings + re-keying in cell order: every text is found again under the key its cell now carries *)
Theorem rekey_preserves_text : forall (vs : list (list N)) (d : dl (list N)),
  dl_inv (list N) str_eqb d ->
  let '(ks, d') := insert_all (list N) str_eqb d vs in
  Forall2 (fun k v => lookup_value (list N) d' k = Ok v) ks vs.
Proof. exact (rekey_preserves_text (list N) str_eqb (fun a b => A1P.str_eqb_eq a b)). Qed.
Print Assumptions rekey_preserves_text.

Example resave_example :
  let c := {| c_kind := KText; c_payload := [7;0;0;0]%N; c_string_id_set := true;
              c_rich := None; c_cell_style := Some 3%Z; c_text_style := Some 4%Z;
              c_formula := Some 12%Z; c_control := None; c_suggest := None;
              c_num_fmt := None; c_cur_fmt := None; c_date_fmt := None;
              c_dur_fmt := None; c_text_fmt := Some 2%Z; c_bool_fmt := None |} in
  wf_cell c = true /\ match decode (encode c) with Ok d => cell_from KText [7;0;0;0]%N true d = c | Err _ => False end.
Proof. vm_compute. split; reflexivity. Qed.
