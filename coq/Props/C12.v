(* C12 - merged regions are reported consistently, immediately and after reload.
   Property theorems only; each is closed by [exact] of a lemma from Proofs/. *)
From Coq Require Import ZArith NArith List Bool.
From NP Require Import Model.PyBase Model.Grid Proofs.GridP Proofs.MergeP.
Import ListNotations.
Open Scope Z_scope.

(* the merge map after merging a rectangle R: R's top-left is the anchor carrying R's size, every other
   position of R refers to R, every position outside keeps what it had (any table, any prior merges).
   Every cell's reported merge attributes are then refreshed from this map by position. *)
Theorem merge_map : forall t r0 c0 r1 c1 t', merge_cells t r0 c0 r1 c1 = Ok t' ->
  forall r c,
  mget (merges t') r c =
    if existsb (fun p => (r =? fst p) && (c =? snd p)) (rect_cells r0 c0 r1 c1) then Some (RRef r0 c0 r1 c1)
    else if (r =? r0) && (c =? c0) then Some (RAnchor (r1 - r0 + 1) (c1 - c0 + 1))
    else mget (merges t) r c.
Proof. exact merge_map_lemma. Qed.
Print Assumptions merge_map.

(* the picture at cell level: every cell of the table then reports the merge attributes of the map entry at its
   position; the cells of the rectangle other than the anchor are value-less placeholder objects; every other cell
   (the anchor and everything outside) keeps its class, value and position.  With merge_map: the anchor reports the
   rectangle's size, placeholders report the rectangle, cells outside report what they reported before. *)
Theorem merge_picture : forall t r0 c0 r1 c1 t', 0 <= r0 -> 0 <= c0 -> merge_cells t r0 c0 r1 c1 = Ok t' ->
  forall r c x, 0 <= r -> 0 <= c -> get_cell (data t) r c = Some x ->
  exists x', get_cell (data t') r c = Some x' /\ cmerge x' = attr_of (mget (merges t') r c) /\
    (if existsb (fun p => (r =? fst p) && (c =? snd p)) (rect_cells r0 c0 r1 c1)
     then cplace x' = true /\ cval x' = None
     else cplace x' = cplace x /\ cval x' = cval x /\ crow x' = crow x /\ ccol x' = ccol x).
Proof. exact merge_picture_lemma. Qed.
Print Assumptions merge_picture.

(* the table's list of merge ranges is exactly the set of merged rectangles: any list of pairwise disjoint,
   non-empty rectangles (1xN, Nx1, NxM, touching, at table edges) merged one after the other into a fresh table *)
Theorem merge_ranges_exact : forall nr nc Rs tf,
  Forall nonempty Rs -> ForallOrdPairs disjoint Rs ->
  Forall (fun R => let '(r0, c0, _, _) := R in r0 < nr /\ c0 < nc) Rs ->
  merge_all (new_table nr nc) Rs = Ok tf ->
  forall q, In q (merge_ranges tf) <-> In q Rs.
Proof. exact merge_ranges_exact_lemma. Qed.
Print Assumptions merge_ranges_exact.

(* merge_ranges scans the cells' own attributes: it lists the anchors found at their current positions *)
Theorem merge_ranges_are_anchor_cells : forall t q,
  In q (merge_ranges t) <->
  exists r c x h w, 0 <= r /\ 0 <= c /\ get_cell (data t) r c = Some x /\ cmerge x = MAnchor h w /\
                    q = (r, c, r + h - 1, c + w - 1).
Proof. exact merge_ranges_spec. Qed.
Print Assumptions merge_ranges_are_anchor_cells.

(* persistence: origin = col << 16 | row and size = ncols << 16 | nrows read back exactly while row and
   height fit 16 bits; the hypothesis is forced by the packing *)
(* a table that has just been created (Document(), add_table, add_sheet) has no merged cell, whatever the document's
   other tables carry: its list of merge ranges is empty and every cell is an ordinary empty cell *)
Theorem new_table_has_no_merges : forall nr nc,
  merge_ranges (new_table nr nc) = [] /\ merges (new_table nr nc) = [].
Proof. exact new_table_no_merges_lemma. Qed.
Print Assumptions new_table_has_no_merges.

Theorem new_table_cells_are_plain : forall nr nc row x, In row (data (new_table nr nc)) -> In x row ->
  cmerge x = MPlain /\ cplace x = false /\ cval x = None.
Proof. exact new_table_cells_plain. Qed.
Print Assumptions new_table_cells_are_plain.

Theorem merge_reload : forall r c h w,
  0 <= r < 65536 -> 0 <= c -> 0 <= h < 65536 -> 0 <= w ->
  forall rr cc,
  mget (reload_merges [((r, c), RAnchor h w)]) rr cc =
  if (rr =? r) && (cc =? c) then Some (RAnchor h w)
  else if existsb (fun p => (rr =? fst p) && (cc =? snd p))
                  (flat_map (fun x => map (fun y => (x, y)) (zrange c (c + w - 1 + 1))) (zrange r (r + h - 1 + 1)))
       then Some (RRef r c (r + h - 1) (c + w - 1)) else None.
Proof. exact merge_reload_lemma. Qed.
Print Assumptions merge_reload.

Theorem pack16_roundtrip : forall hi lo, 0 <= lo < 65536 -> 0 <= hi ->
  Z.shiftr (pack16 hi lo) 16 = hi /\ Z.land (pack16 hi lo) 65535 = lo.
Proof. exact pack16_unpack. Qed.
Print Assumptions pack16_roundtrip.

(* ... and without it the statement is false: a merge anchored at row 65536 (tables go to 1,000,000 rows)
   reloads anchored at row 0 of the next column *)
Theorem merge_reload_refuted :
  mget (reload_merges [((65536, 0), RAnchor 2 2)]) 65536 0 = None /\
  mget (reload_merges [((65536, 0), RAnchor 2 2)]) 0 1 = Some (RAnchor 2 2).
Proof. vm_compute. split; reflexivity. Qed.
Print Assumptions merge_reload_refuted.

(* structural edits: rows appended below keep the merge map and every existing cell (partial);
   the full statement - rectangles move with the rows/columns inserted or deleted before them, in the
   open document and in the saved file - is FALSE of the faithful model: the merge map is keyed by
   (row, col) and never updated by add/delete row/column *)
Theorem merge_shift_partial : forall t n t', wf t -> add_row t n None None = Ok t' ->
  merges t' = merges t /\ firstn (length (data t)) (data t') = data t.
Proof. exact append_rows_keeps_merges. Qed.
Print Assumptions merge_shift_partial.

Theorem merge_shift_refuted :
  exists t t1 t2, merge_cells (new_table 5 5) 1 1 2 2 = Ok t /\ add_row t 1 (Some 0) None = Ok t1 /\ t2 = reopen t1 /\
    In (2, 1, 3, 2) (merge_ranges t1) /\ ~ In (2, 1, 3, 2) (merge_ranges t2) /\ In (1, 1, 2, 2) (merge_ranges t2).
Proof.
  eexists. eexists. eexists. split; [vm_compute; reflexivity|]. split; [vm_compute; reflexivity|]. split; [reflexivity|].
  vm_compute. repeat split; try tauto; intuition discriminate.
Qed.
Print Assumptions merge_shift_refuted.

Example three_rectangles :
  match merge_all (new_table 6 6) [(0, 0, 0, 5); (1, 0, 5, 0); (2, 2, 3, 4)] with
  | Ok tf => merge_ranges tf = [(0, 0, 0, 5); (1, 0, 5, 0); (2, 2, 3, 4)] /\ merge_ranges (reopen tf) = merge_ranges tf
  | Err _ => False end.
Proof. vm_compute. split; reflexivity. Qed.

(* the picture on concrete tables (tests of the statement, not the theorem): anchor, placeholders, outside untouched,
   merge_ranges exact, identical after save + reopen *)
Example picture_3x4 :
  match merge_cells (new_table 4 5) 1 1 2 3 with
  | Ok t =>
    merge_ranges t = [(1, 1, 2, 3)] /\ merge_ranges (reopen t) = [(1, 1, 2, 3)] /\
    map (map (fun x => (cplace x, cmerge x))) (data t) = map (map (fun x => (cplace x, cmerge x))) (data (reopen t)) /\
    option_map cmerge (get_cell (data t) 1 1) = Some (MAnchor 2 3) /\
    option_map (fun x => (cplace x, cmerge x)) (get_cell (data t) 1 2) = Some (true, MRef 1 1 2 3) /\
    option_map (fun x => (cplace x, cmerge x)) (get_cell (data t) 2 1) = Some (true, MRef 1 1 2 3) /\
    option_map (fun x => (cplace x, cmerge x)) (get_cell (data t) 0 0) = Some (false, MPlain)
  | Err _ => False
  end.
Proof. vm_compute. repeat split; reflexivity. Qed.
