(* C11 - A1 and row/column addressing reach the same cell in every call; bounds hold.
   Property theorems only; each is closed by [exact] of a lemma from Proofs/. *)
From Coq Require Import ZArith NArith List Bool.
From NP Require Import Gen.GenConsts Gen.GenC11 Model.PyBase Model.A1 Model.Grid Proofs.GridP Proofs.C11Gen.
Import ListNotations.
Open Scope Z_scope.

(* the A1 form and the row/column form of the same position act on the same cell (read and write;
   every other position-taking method enters through the same validation function) *)
Theorem a1_same_cell : forall t r c ra ca v s, 0 <= r -> 0 <= c < 18278 ->
  xl_rowcol_to_cell r c ra ca = Ok s ->
  read_a1 t s = read t r c /\ write_a1 t s v = write t r c v.
Proof. exact a1_same_cell_lemma. Qed.
Print Assumptions a1_same_cell.

Theorem a1_row_zero_refused : forall t s c v, xl_cell_to_rowcol s = Ok (-1, c) ->
  write_a1 t s v = Err IndexError /\ read_a1 t s = Err IndexError.
Proof. exact a1_row_zero_refused. Qed.
Print Assumptions a1_row_zero_refused.

(* reads outside the table raise IndexError (a read never changes state: it returns no table) *)
Theorem read_bounds : forall t r c,
  (r < 0 \/ nrows t <= r \/ c < 0 \/ ncols t <= c) -> read t r c = Err IndexError.
Proof. exact read_bounds_lemma. Qed.
Print Assumptions read_bounds.

Theorem read_inside : forall t r c, wf t -> 0 <= r < nrows t -> 0 <= c < ncols t ->
  exists x, read t r c = Ok x /\
    Some (cval x) = match nth_error (vals t) (Z.to_nat r) with Some row => nth_error row (Z.to_nat c) | None => None end.
Proof. exact read_inside_lemma. Qed.
Print Assumptions read_inside.

(* any negative or beyond-limit position is refused with IndexError and no new table is produced *)
Theorem write_bounds : forall t r c v,
  (r < 0 \/ c < 0 \/ MAX_ROW_COUNT <= r \/ MAX_COL_COUNT <= c) -> write t r c v = Err IndexError.
Proof. exact write_bounds_lemma. Qed.
Print Assumptions write_bounds.

(* writes inside the documented limits succeed by growing the table to exactly the required size *)
Theorem write_grows_exactly : forall t r c v, wf t -> 0 <= r < MAX_ROW_COUNT -> 0 <= c < MAX_COL_COUNT ->
  exists t', write t r c v = Ok t' /\ wf t' /\
    nrows t' = Z.max (nrows t) (r + 1) /\ ncols t' = Z.max (ncols t) (c + 1) /\
    vals t' = p_set (p_grow (vals t) (ncols t) (Z.to_nat (r + 1 - nrows t)) (Z.to_nat (c + 1 - ncols t))) r c (Some v).
Proof. exact write_refines. Qed.
Print Assumptions write_grows_exactly.

(* iteration: a bound that is given and is not a position of the table (negative, or at/past the edge) -> IndexError,
   for starts and ends alike; inside -> exactly the addressed rectangle, in order *)
Theorem iter_bounds : forall t a b c d,
  (bound_bad a (nrows t) = true \/ bound_bad b (nrows t) = true \/ bound_bad c (ncols t) = true \/ bound_bad d (ncols t) = true) ->
  iter_rows t a b c d = Err IndexError /\ iter_cols t c d a b = Err IndexError.
Proof. exact iter_rows_bounds_lemma. Qed.
Print Assumptions iter_bounds.

Theorem iter_bound_is_a_position : forall x n, bound_bad (Some x) n = true <-> (x < 0 \/ n <= x).
Proof. exact bound_bad_some. Qed.
Print Assumptions iter_bound_is_a_position.

Theorem iter_rectangle : forall t r0 r1 c0 c1,
  0 <= r0 < nrows t -> 0 <= r1 < nrows t -> 0 <= c0 < ncols t -> 0 <= c1 < ncols t ->
  iter_rows t (Some r0) (Some r1) (Some c0) (Some c1) =
    Ok (map (fun r => py_slice (nth (Z.to_nat r) (data t) []) c0 (c1 + 1)) (zrange r0 (r1 + 1))) /\
  iter_cols t (Some c0) (Some c1) (Some r0) (Some r1) =
    Ok (map (fun c => flat_map (fun row => match nth_error row (Z.to_nat c) with Some x => [x] | None => [] end)
                               (py_slice (data t) r0 (r1 + 1))) (zrange c0 (c1 + 1))).
Proof. exact iter_rows_rectangle_lemma. Qed.
Print Assumptions iter_rectangle.

Theorem iter_rows_shape : forall t r0 r1 c0 c1 L, wf t ->
  0 <= r0 < nrows t -> 0 <= r1 < nrows t -> 0 <= c0 < ncols t -> 0 <= c1 < ncols t ->
  iter_rows t (Some r0) (Some r1) (Some c0) (Some c1) = Ok L ->
  length L = Z.to_nat (r1 + 1 - r0) /\ Forall (fun line => length line = Z.to_nat (c1 + 1 - c0)) L.
Proof. exact iter_rows_shape_lemma. Qed.
Print Assumptions iter_rows_shape.

Theorem limits_are_source_constants :
  GenConsts.MAX_ROW_COUNT = Grid.MAX_ROW_COUNT /\ GenConsts.MAX_COL_COUNT = Grid.MAX_COL_COUNT.
Proof. split; reflexivity. Qed.
Print Assumptions limits_are_source_constants.

Example zero_bounds_are_bounds :
  match iter_rows (new_table 3 3) (Some 0) (Some 0) (Some 0) (Some 0) with Ok L => length L = 1%nat | Err _ => False end /\
  iter_rows (new_table 3 3) None (Some 3) None None = Err IndexError /\
  write (new_table 3 3) (-1) 0 5 = Err IndexError.
Proof. vm_compute. repeat split. Qed.

(* ---- tie to the source, regenerated on every run (tools/gen_c11.py -> Gen/GenC11.v): Table._validate_cell_coords,
   translated guard by guard and loop by loop from its AST, IS the model's validation for every table and all integers:
   same rejections, and on acceptance growth by exactly the iteration counts of the two source loops, rows first ---- *)
Theorem gen_validate_cell_coords : forall t r c,
  validate t r c =
    if validate_rejects r c then Err IndexError
    else Ok (grow_cols (range_len (grow1_range (nrows t) (ncols t) r c))
              (grow_rows (range_len (grow0_range (nrows t) (ncols t) r c)) t)).
Proof. exact gen_validate_is_model. Qed.
Print Assumptions gen_validate_cell_coords.

(* the translated guards reject exactly the positions write_bounds speaks of *)
Theorem gen_validate_rejects : forall r c,
  validate_rejects r c = true <-> (r < 0 \/ c < 0 \/ MAX_ROW_COUNT <= r \/ MAX_COL_COUNT <= c).
Proof. exact gen_validate_rejects_spec. Qed.
Print Assumptions gen_validate_rejects.

(* every guard raises IndexError, growth calls add_row then add_column, and every position-taking method of Table
   (write, set_cell_style, set_cell_border, set_cell_formatting - every *args method but cell()) begins with the
   validation call: the bounds theorems above speak for all of them *)
Theorem gen_position_methods :
  forallb (fun e => str_eqb e (exn_name IndexError)) guard_exceptions = true /\ guard_exceptions <> [] /\
  grow_calls = [s_add_row; s_add_column] /\
  forallb snd position_methods = true /\
  forallb (fun n => existsb (fun m => str_eqb (fst m) n) position_methods)
          [s_write; s_set_cell_style; s_set_cell_border; s_set_cell_formatting] = true.
Proof. exact gen_validate_shape. Qed.
Print Assumptions gen_position_methods.
