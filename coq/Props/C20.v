(* C20 - CSV import followed by CSV export reproduces the cell grid.
   Property theorems only; each is closed by [exact] of a lemma from Proofs/CsvP.v or
   Proofs/CsvReaderP.v.  The model (Model/Csv.v) mirrors _csv2numbers.Converter / main and
   _cat_numbers.cell_as_string of the tree with fixes/C20-*.patch applied, and CPython's
   excel-dialect csv writer and reader.  External functions are quantified:
     pyfloat = float(str), sig15 = sigfig.round(.., 15), stored = the document layer for
     numbers (C01), frepr = repr(float).
   Open findings (model faithful to the code, see known_findings.d/C20.json):
     small-grid-padded, duplicate-header-collapses-columns. *)
From Coq Require Import ZArith NArith List Bool.
From NP Require Import Model.PyBase Model.Csv Proofs.CsvReaderP Proofs.CsvP.
Import ListNotations.

(* a cell that float() rejects comes back character for character (after the optional
   --whitespace normalisation), whatever it contains *)
Theorem text_stays_text : forall (F : Type) pyfloat sig15 stored frepr (finite_only ws : bool) (t : list N),
  pyfloat (remove_commas t) = None ->
  cell_pipeline F pyfloat sig15 stored frepr finite_only ws t = Ok (shown ws t).
Proof. exact text_stays_text_lemma. Qed.
Print Assumptions text_stays_text.

(* text that float() reads as inf or nan (nan, inf, -Infinity, 1e400, ...) stays text *)
Theorem special_stays_text : forall (F : Type) pyfloat sig15 stored frepr (ws : bool) (t : list N),
  pyfloat (remove_commas t) = Some Inf \/ pyfloat (remove_commas t) = Some NaN ->
  coerce F pyfloat true ws t = Ok (CText (shown ws t)) /\
  cell_pipeline F pyfloat sig15 stored frepr true ws t = Ok (shown ws t).
Proof. exact special_stays_text_lemma. Qed.
Print Assumptions special_stays_text.

(* the pinned coercion hands such a cell to Table.write, which raises ValueError ... *)
Theorem special_stays_text_pinned_refuted : forall (F : Type) pyfloat (ws : bool) (t : list N),
  pyfloat (remove_commas t) = Some Inf \/ pyfloat (remove_commas t) = Some NaN ->
  coerce F pyfloat false ws t = Err ValueError.
Proof. exact special_pinned_lemma. Qed.
Print Assumptions special_stays_text_pinned_refuted.

(* ... which leaves main uncaught; with the repair the same file converts *)
Theorem errors_reported_pinned_refuted :
  run_main unit w_float_nan w_id w_store_ok fl_pinned (Text [97; 13; 10; 110; 97; 110; 13; 10]%N)
  = Crashed ValueError /\
  run_main unit w_float_nan w_id w_store_ok fl_default (Text [97; 13; 10; 110; 97; 110; 13; 10]%N) = Exit0.
Proof. exact pinned_special_witness. Qed.
Print Assumptions errors_reported_pinned_refuted.

(* a numeric cell comes back as text that float() reads as the same value, provided repr
   round-trips, rounding to 15 digits and the document layer are exact on this value *)
Theorem number_equal : forall (F : Type) pyfloat sig15 stored frepr (d15 storable : F -> Prop),
  (forall f, pyfloat (frepr f) = Some (Finite f)) ->
  (forall f, d15 f -> sig15 f = f) ->
  (forall f, d15 f -> storable f -> stored f = Ok f) ->
  forall (finite_only ws : bool) (t : list N) (d : F),
  pyfloat (remove_commas t) = Some (Finite d) -> d15 d -> storable d ->
  exists s, cell_pipeline F pyfloat sig15 stored frepr finite_only ws t = Ok s /\ pyfloat s = Some (Finite d).
Proof. exact number_equal_lemma. Qed.
Print Assumptions number_equal.

(* header / --no-header / --reverse / --whitespace bookkeeping: on rectangular grids with at
   least two rows and two columns and distinct header names, the converted table is the
   header row as text followed by every data cell converted on its own, in file order or
   reversed - the zip/dict/row.values()/2x2-table machinery adds and loses nothing *)
Theorem grid_shape_partial : forall (F : Type) pyfloat sig15 stored (fl : flags) (rows : list (list (list N))) (nc : nat),
  finite_only fl = true ->
  Forall (fun r => length r = nc) rows -> (2 <= nc)%nat -> (2 <= length rows)%nat ->
  (no_header fl = false -> NoDup (hd [] rows)) ->
  convert F pyfloat sig15 stored fl rows = expected F pyfloat sig15 stored fl rows.
Proof. exact grid_shape_lemma. Qed.
Print Assumptions grid_shape_partial.

(* open finding small-grid-padded: a 1 x 1 grid comes back 2 x 2 *)
Theorem grid_shape_refuted_small_grid :
  convert unit w_float_none w_id w_store_ok fl_default [[[120]]]%N
  = Ok [[CText [120]%N; CEmpty]; [CEmpty; CEmpty]].
Proof. exact small_grid_padded_witness. Qed.
Print Assumptions grid_shape_refuted_small_grid.

(* open finding duplicate-header-collapses-columns: header a,a,b over 1,2,3 gives 2,3,(empty) *)
Theorem grid_shape_refuted_duplicate_header :
  convert unit w_float_none w_id w_store_ok fl_default [[[97]; [97]; [98]]; [[49]; [50]; [51]]]%N
  = Ok [[CText [97]%N; CText [97]%N; CText [98]%N]; [CText [50]%N; CText [51]%N; CEmpty]].
Proof. exact duplicate_header_witness. Qed.
Print Assumptions grid_shape_refuted_duplicate_header.

(* the model's excel-dialect reader inverts its writer on all rows of all code points
   (quotes, commas, CR, LF, empty fields, empty rows), strict or not *)
Theorem csv_quote_roundtrip : forall (strict : bool) (rows : list (list (list N))),
  read_excel strict (write_excel rows) = Ok rows.
Proof. exact csv_quote_roundtrip_lemma. Qed.
Print Assumptions csv_quote_roundtrip.

(* text in, text out, read again: csv2numbers then cat-numbers -b reproduces the expected grid *)
Theorem roundtrip_grid : forall (F : Type) pyfloat sig15 stored frepr (fl : flags)
    (rows : list (list (list N))) (nc : nat) (strict : bool) t,
  finite_only fl = true ->
  Forall (fun r => length r = nc) rows -> (2 <= nc)%nat -> (2 <= length rows)%nat ->
  (no_header fl = false -> NoDup (hd [] rows)) ->
  expected F pyfloat sig15 stored fl rows = Ok t ->
  bind (roundtrip_text F pyfloat sig15 stored frepr fl (write_excel rows)) (read_excel strict)
  = Ok (export F sig15 frepr t).
Proof. exact roundtrip_grid_lemma. Qed.
Print Assumptions roundtrip_grid.

(* main: a missing file, a file the strict reader rejects and every non-empty CSV file end in
   success or in one line on stderr with exit status 1, provided the document layer stores
   every number (on the pinned tree it did not for 0 < |x| < 1e-307; repaired under C01) *)
Theorem errors_reported_partial : forall (F : Type) pyfloat sig15 stored (fl : flags) (file : csv_file),
  finite_only fl = true -> (forall f, exists g, stored f = Ok g) ->
  (forall s, file = Text s -> read_excel true s <> Ok []) ->
  run_main F pyfloat sig15 stored fl file = Exit0 \/ run_main F pyfloat sig15 stored fl file = Reported.
Proof. exact errors_reported_lemma. Qed.
Print Assumptions errors_reported_partial.

(* the hypothesis on the document layer is needed: a number it cannot store leaves main uncaught *)
Theorem errors_reported_refuted :
  run_main unit w_float_one w_id w_store_fail fl_default (Text [97; 13; 10; 49; 13; 10]%N) = Crashed (OtherCrash 3).
Proof. exact store_failure_witness. Qed.
Print Assumptions errors_reported_refuted.

(* non-vacuity *)
Example c20_writer_reader :
  write_excel [[[97; 44; 98]; [34]; []]; [[13; 10]; [120]]]%N
    = [34; 97; 44; 98; 34; 44; 34; 34; 34; 34; 44; 13; 10; 34; 13; 10; 34; 44; 120; 13; 10]%N
  /\ read_excel true [34; 97; 44; 98; 34; 44; 34; 34; 34; 34; 44; 13; 10; 34; 13; 10; 34; 44; 120; 13; 10]%N
    = Ok [[[97; 44; 98]; [34]; []]; [[13; 10]; [120]]]%N
  /\ read_excel true [34; 97; 34; 98]%N = Err ValueError
  /\ read_excel false [34; 97; 34; 98]%N = Ok [[[97; 98]]]%N.
Proof. vm_compute. repeat split. Qed.

Example c20_grid :
  convert unit (fun s => match s with [49] => Some (Finite tt) | [110] => Some NaN | _ => None end)%N
          w_id w_store_ok (mkFlags false true true true)
          [[[104]; [105]]; [[49]; [32; 120; 32; 32; 121]]; [[110]; [49; 44]]]%N
  = Ok [[CText [104]%N; CText [105]%N]; [CText [110]%N; CNum tt]; [CNum tt; CText [120; 32; 121]%N]].
Proof. vm_compute. reflexivity. Qed.
