(* C15 - styles and borders applied through the API read back equal, now and after reload.
   Property theorems only; proofs are in Proofs/Borders*.v and Proofs/StylesP.v.

   Borders (Model/Borders.v): tables WITHOUT merged cells - the theorems whose full statement would
   also cover merged cells carry the suffix _partial.  The model mirrors the tree with
   fixes/C15-1-border-order-stamp.patch applied (order stamp assigned before the cells are updated);
   the pinned order is [Borders.Pinned] and is refuted below. *)
From Coq Require Import ZArith NArith List Bool.
From NP Require Import Gen.GenStyles Model.PyBase Model.Borders Model.Styles
     Proofs.BordersPatchP Proofs.BordersReadP Proofs.BordersP Proofs.StylesP.
Import ListNotations.
Local Open Scope Z_scope.

(* History statement.  After ANY sequence of strokes (any side, start cell inside the table, length >= 1,
   any Border objects - fresh or re-used), reads of all borders and save/reopen steps, every side of
   every cell of the table shows the attributes of the LAST stroke drawn along that cell side's edge
   (or nothing if there was none): last writer wins, in the open document and in the reopened file alike. *)
Theorem borders_lww_partial : forall (objs : nat -> attrs) (nr nc : Z) (ops : list bop) (max0 : Z) (k : key),
  0 <= max0 -> lens_ok ops -> in_tbl nr nc k ->
  view (brun objs ops (empty_table nr nc max0)) k = lww objs nr nc (strokes_of ops) (edge_of k).
Proof. exact borders_lww_lemma. Qed.
Print Assumptions borders_lww_partial.

(* the open document alone ... *)
Theorem memory_is_lww_partial : forall (objs : nat -> attrs) (nr nc : Z) (h : list stroke) (max0 : Z) (k : key),
  0 <= max0 -> Forall (fun s => 1 <= s_len s) h -> in_tbl nr nc k ->
  view (brun objs (map BStroke h) (empty_table nr nc max0)) k = lww objs nr nc h (edge_of k).
Proof. exact memory_is_lww_lemma. Qed.
Print Assumptions memory_is_lww_partial.

(* ... and the saved file, reopened *)
Theorem reload_is_lww_partial : forall (objs : nat -> attrs) (nr nc : Z) (h : list stroke) (max0 : Z) (k : key),
  0 <= max0 -> Forall (fun s => 1 <= s_len s) h -> in_tbl nr nc k ->
  view (reopen (brun objs (map BStroke h) (empty_table nr nc max0))) k = lww objs nr nc h (edge_of k).
Proof. exact reload_is_lww_lemma. Qed.
Print Assumptions reload_is_lww_partial.

(* a cell's bottom is the top of the cell below, its right the left of the cell to the right *)
Theorem shared_edge_partial : forall (objs : nat -> attrs) (nr nc : Z) (ops : list bop) (max0 r c : Z),
  0 <= max0 -> lens_ok ops ->
  (0 <= r -> r + 1 < nr -> 0 <= c < nc ->
     view (brun objs ops (empty_table nr nc max0)) (r, c, SBottom) =
     view (brun objs ops (empty_table nr nc max0)) (r + 1, c, STop)) /\
  (0 <= r < nr -> 0 <= c -> c + 1 < nc ->
     view (brun objs ops (empty_table nr nc max0)) (r, c, SRight) =
     view (brun objs ops (empty_table nr nc max0)) (r, c + 1, SLeft)).
Proof. exact shared_edge_lemma. Qed.
Print Assumptions shared_edge_partial.

(* patch_inv: add_stroke's run patching.  A stroke stamped above every order present leaves the layer
   (a) sorted by origin and (b) consistent: at every position the highest-order run covering it is the
   last stroke filed there, and positions never stroked are covered by no run. *)
Theorem patch_inv : forall (M : Z) (rs : list run) (g : gline) (newr : run),
  layer_ok M rs g -> 1 <= r_length newr -> r_order newr = M + 1 ->
  layer_ok (M + 1) (patch_layer newr rs) (g_update g newr) /\ sorted_by_origin (patch_layer newr rs).
Proof. intros M rs g newr H HL HO. split; [apply patch_layer_ok; assumption|apply patch_layer_sorted]. Qed.
Print Assumptions patch_inv.

(* reading every border changes nothing of what save writes (the stroke layers and max_order) *)
Theorem read_is_pure : forall st : mem, persisted (read_borders st) = persisted st.
Proof. exact read_is_pure_lemma. Qed.
Print Assumptions read_is_pure.

(* the pinned order (cells first, stamp afterwards): a second stroke over an edge is ignored by the
   open document although the saved file has it *)
Theorem memory_is_lww_refuted_on_pinned_tree :
  exists (objs : nat -> attrs) (h : list stroke) (k : key),
    in_tbl 6 6 k /\ Forall (fun s => 1 <= s_len s) h /\
    view (Pinned.brun objs (map BStroke h) (empty_table 6 6 2)) k <> lww objs 6 6 h (edge_of k) /\
    view (reopen (Pinned.brun objs (map BStroke h) (empty_table 6 6 2))) k = lww objs 6 6 h (edge_of k).
Proof. exact pinned_memory_refuted. Qed.
Print Assumptions memory_is_lww_refuted_on_pinned_tree.

(* DESIGN's stronger "runs stay disjoint" does not hold of add_stroke (a stroke partially overlapping two
   runs is appended without trimming them); reading is unaffected because precedence goes by order *)
Theorem runs_disjoint_refuted :
  exists (rs : list run) (newr : run) (a b : run) (p : Z),
    sorted_by_origin rs /\ In a (patch_layer newr rs) /\ In b (patch_layer newr rs) /\ a <> b /\
    covers a p /\ covers b p.
Proof. exact runs_overlap_witness. Qed.
Print Assumptions runs_disjoint_refuted.

(* ---- styles ---- *)
(* Style.__setattr__: the text (cell) dirty flag is raised exactly by the names in _text_attrs (_cell_attrs) *)
Theorem style_dirty_flags : forall (name : list N) (f : flags),
  (f_text (setattr name f) = true <-> f_text f = true \/ In name text_attrs) /\
  (f_cell (setattr name f) = true <-> f_cell f = true \/ In name cell_attrs).
Proof. exact style_dirty_flags_lemma. Qed.
Print Assumptions style_dirty_flags.

(* translator tie: the two attribute lists are the ones in /repo *)
Theorem gen_style_attrs :
  GenStyles.text_attrs = Styles.text_attrs /\ GenStyles.cell_attrs = Styles.cell_attrs.
Proof. exact gen_style_attrs_lemma. Qed.
Print Assumptions gen_style_attrs.

(* every RGB component survives v -> v/255 (binary64) -> float32 field -> *255 -> round() *)
Theorem colour_quantisation : forall v : N, (v < 256)%N -> colour_roundtrip v = v.
Proof. exact colour_quantisation_lemma. Qed.
Print Assumptions colour_quantisation.

(* the cell-style key of the repaired code separates different field lists (the pinned concatenation did not) *)
Theorem fingerprint_separates : forall f1 f2 : list (list N), f1 <> f2 -> fingerprint f1 <> fingerprint f2.
Proof. exact fingerprint_separates_lemma. Qed.
Print Assumptions fingerprint_separates.

Example fingerprint_pinned_collides :
  [[49;46;48]; [49;52;46;48]]%N <> [[49;46;48;49]; [52;46;48]]%N /\
  fingerprint_pinned [[49;46;48]; [49;52;46;48]]%N = fingerprint_pinned [[49;46;48;49]; [52;46;48]]%N.
Proof. exact fingerprint_pinned_collides. Qed.

(* non-vacuity: three strokes on a 6x6 table, the third partially overlapping the first two; the view of the
   open document, of the reopened file, and the specification agree on the whole line *)
Example c15_example :
  let objs := fun n => [N.of_nat n + 65]%N in
  let h := [ {| s_side := STop; s_row := 1; s_col := 0; s_len := 2; s_obj := 0 |};
             {| s_side := STop; s_row := 1; s_col := 2; s_len := 4; s_obj := 1 |};
             {| s_side := SBottom; s_row := 0; s_col := 1; s_len := 3; s_obj := 2 |} ] in
  let st := brun objs (map BStroke h) (empty_table 6 6 2) in
  map (fun c => view st (1, c, STop)) [0; 1; 2; 3; 4; 5] = [Some [65]; Some [67]; Some [67]; Some [67]; Some [66]; Some [66]]%N /\
  map (fun c => view (reopen st) (0, c, SBottom)) [0; 1; 2; 3; 4; 5] = [Some [65]; Some [67]; Some [67]; Some [67]; Some [66]; Some [66]]%N /\
  map (fun c => lww objs 6 6 h (Hor, 1, c)) [0; 1; 2; 3; 4; 5] = [Some [65]; Some [67]; Some [67]; Some [67]; Some [66]; Some [66]]%N.
Proof. vm_compute. repeat split. Qed.
