(* C17 - Damaged or foreign files fail only with the library's own error types.
   Property theorems only; each is closed by [exact] of a lemma from Proofs/.
   Two models: IWA.store_blob (un-framing and decoding one archive member, snappy and
   protobuf universally quantified) and Loader.object_store_init (the call / handler
   skeleton of container loading over an arbitrary script of external answers).
   Flags [true] = the repaired code (fixes/C17-*.patch), [false] = the pinned tree. *)
From Coq Require Import NArith List Bool.
From NP Require Import Gen.GenIWA Model.PyBase Model.Varint Model.Wire Model.IWA Model.Loader
  Proofs.IWAP Proofs.IWATotalP Proofs.LoaderP.
Import ListNotations.
Open Scope N_scope.

(* ---------- member level ---------- *)
(* EVERY byte string, EVERY behaviour of snappy.uncompress, ArchiveInfo.FromString, the type
   registry and message decoding (values or exceptions; OutOfFuel is the model's own marker and
   not something a library returns): loading an archive member ends in a value or FileFormatError *)
Theorem unframe_total :
  forall (uncompress : bytes -> option bytes) (Hd Ob : Type) (dec_header : bytes -> result Hd)
         (view : Hd -> hview) (known_type : N -> bool) (dec_payload : N -> bytes -> result Ob),
  (forall b, dec_header b <> Err OutOfFuel) ->
  (forall t b, dec_payload t b <> Err OutOfFuel) ->
  forall (ends_iwa : bool) (blob : bytes),
  (exists r, IWA.store_blob uncompress dec_header view known_type dec_payload true true ends_iwa blob = Ok r) \/
  IWA.store_blob uncompress dec_header view known_type dec_payload true true ends_iwa blob = Err FileFormatError.
Proof. exact (fun u Hd Ob dh v kt dp => @unframe_total_lemma u Hd Ob dh v kt dp). Qed.
Print Assumptions unframe_total.

(* the repaired sniffer is total: no exception on any byte string *)
Theorem sniffer_total : forall data, exists b, is_iwa_file true data = Ok b.
Proof. exact is_iwa_file_total. Qed.
Print Assumptions sniffer_total.

(* the pinned tree refutes the statement: an empty member -> IndexError (iwaf.chunks[0]),
   one to three bytes starting with 0x00 -> struct.error (is_iwa_file), whatever the libraries do *)
Theorem unframe_total_refuted :
  forall (uncompress : bytes -> option bytes) (Hd Ob : Type) (dec_header : bytes -> result Hd)
         (view : Hd -> hview) (known_type : N -> bool) (dec_payload : N -> bytes -> result Ob),
  IWA.store_blob uncompress dec_header view known_type dec_payload false false true [] = Err IndexError /\
  IWA.store_blob uncompress dec_header view known_type dec_payload false false true [0] = Err StructError /\
  IWA.store_blob uncompress dec_header view known_type dec_payload false false true [0; 1; 2] = Err StructError.
Proof.
  exact (fun u Hd Ob dh v kt dp =>
           conj (@unframe_refuted_empty u Hd Ob dh v kt dp) (@unframe_refuted_short u Hd Ob dh v kt dp)).
Qed.
Print Assumptions unframe_total_refuted.

(* the pinned sniffer fails with struct.error and nothing else *)
Theorem sniffer_pinned_only_struct_error : forall fuel data acc, (length data <= fuel)%nat ->
  (exists r, is_iwa_f false fuel data acc = Ok r) \/ is_iwa_f false fuel data acc = Err StructError.
Proof. exact is_iwa_f_pinned. Qed.
Print Assumptions sniffer_pinned_only_struct_error.

(* repairing the sniffer alone leaves exactly the two IndexErrors of _store_blob *)
Theorem unframe_partial_sniffer_only :
  forall (uncompress : bytes -> option bytes) (Hd Ob : Type) (dec_header : bytes -> result Hd)
         (view : Hd -> hview) (known_type : N -> bool) (dec_payload : N -> bytes -> result Ob),
  (forall b, dec_header b <> Err OutOfFuel) ->
  (forall t b, dec_payload t b <> Err OutOfFuel) ->
  forall (ends_iwa : bool) (blob : bytes),
  (exists r, IWA.store_blob uncompress dec_header view known_type dec_payload true false ends_iwa blob = Ok r) \/
  IWA.store_blob uncompress dec_header view known_type dec_payload true false ends_iwa blob = Err FileFormatError \/
  IWA.store_blob uncompress dec_header view known_type dec_payload true false ends_iwa blob = Err IndexError.
Proof. exact (fun u Hd Ob dh v kt dp => @unframe_sniffer_only u Hd Ob dh v kt dp). Qed.
Print Assumptions unframe_partial_sniffer_only.

(* ---------- loader level ---------- *)
(* whatever the external calls return or raise, in whatever order the script supplies it:
   the repaired loader ends in a store, FileError, FileFormatError or UnsupportedError
   (OutOfFuel = the script ended or did not fit the calls made: not a behaviour) *)
Theorem loader_translates : forall (fix_store : bool) (k : script),
  match object_store_init true fix_store k with
  | Ok _ => True
  | Err e => library_outcome e \/ e = OutOfFuel
  end.
Proof. exact loader_translates_lemma. Qed.
Print Assumptions loader_translates.

(* the pinned loader refutes it: BadZipFile raised by zipf.read (CRC check) escapes; a container
   without archives ends in ValueError (max of an empty sequence); a Properties.plist without
   fileFormatVersion in KeyError *)
Definition prefix_ok : script :=
  [(S_exists, ABool true); (S_suffix, ABool true); (S_is_dir, ABool false); (S_zipfile, AUnit);
   (S_filelist, ANames [s_props; s_build]); (S_zip_read, ABlob)].
Definition script_badzip : script :=
  prefix_ok ++ [(S_plist_loads, APlist (PDict (Some true))); (S_is_dir, ABool false); (S_getinfo, ARaise KeyError);
                (S_namelist, ANames [[97;46;105;119;97]]); (S_zip_read, ARaise BadZip)].
Definition script_no_archives : script :=
  prefix_ok ++ [(S_plist_loads, APlist (PDict (Some true))); (S_is_dir, ABool false); (S_getinfo, ARaise KeyError);
                (S_namelist, ANames [])].
Definition script_plist_nokey : script := prefix_ok ++ [(S_plist_loads, APlist (PDict None))].

Theorem loader_translates_refuted :
  object_store_init false false script_badzip = Err BadZip /\
  object_store_init false false script_no_archives = Err ValueError /\
  object_store_init false false script_plist_nokey = Err KeyError.
Proof. vm_compute. repeat split. Qed.
Print Assumptions loader_translates_refuted.

(* the translation hides nothing: results and library errors of the pinned loader are unchanged *)
Theorem loader_keeps_library_errors : forall fs k e,
  object_store_init false fs k = Err e -> is_library_error e = true -> object_store_init true fs k = Err e.
Proof. exact LoaderP.loader_keeps_library_errors. Qed.
Print Assumptions loader_keeps_library_errors.

Theorem loader_keeps_success : forall fs k r,
  object_store_init false fs k = Ok r -> object_store_init true fs k = Ok r.
Proof. exact LoaderP.loader_keeps_success. Qed.
Print Assumptions loader_keeps_success.

Theorem loader_boundary : forall fs k,
  object_store_init true fs k =
  match object_store_init false fs k with Ok r => Ok r | Err e => Err (translate e) end.
Proof. exact init_boundary. Qed.
Print Assumptions loader_boundary.

(* a missing path is FileError, a wrong suffix FileFormatError, on both trees *)
Theorem missing_path_is_file_error : forall fb fs k,
  object_store_init fb fs ((S_exists, ABool false) :: k) = Err FileError.
Proof. exact LoaderP.missing_path_is_file_error. Qed.
Print Assumptions missing_path_is_file_error.

Theorem wrong_suffix_is_format_error : forall fb fs k,
  object_store_init fb fs ((S_exists, ABool true) :: (S_suffix, ABool false) :: k) = Err FileFormatError.
Proof. exact LoaderP.wrong_suffix_is_format_error. Qed.
Print Assumptions wrong_suffix_is_format_error.

(* the recursion bound never decides an outcome: any fuel above the script length gives the same result *)
Theorem zip_fuel_irrelevant : forall fs f f' k, (length k < f)%nat -> (length k < f')%nat ->
  read_zip fs f k = read_zip fs f' k.
Proof. exact read_zip_fuel. Qed.
Print Assumptions zip_fuel_irrelevant.

Theorem package_fuel_irrelevant : forall fs f f' k, (length k < f)%nat -> (length k < f')%nat ->
  read_package fs f k = read_package fs f' k.
Proof. exact read_package_fuel. Qed.
Print Assumptions package_fuel_irrelevant.

(* translator tie: the except clauses of the loader functions in /repo are the ones of the pinned or of the repaired model *)
Theorem gen_handlers : handlers_match GenIWA.handlers = true.
Proof. vm_compute. reflexivity. Qed.
Print Assumptions gen_handlers.

(* ---------- non-vacuity ---------- *)
(* an intact container with one archive of two objects loads; the same scripts under the repaired
   loader end in FileFormatError; an encrypted container is UnsupportedError on both trees *)
Definition script_good : script :=
  prefix_ok ++ [(S_plist_loads, APlist (PDict (Some true))); (S_is_dir, ABool false); (S_getinfo, ARaise KeyError);
                (S_namelist, ANames [[97;46;105;119;97]; [98;46;106;112;103]]);
                (S_zip_read, ABlob); (S_is_iwa, ABool true); (S_from_buffer, AIwa [[1; 1]]); (S_zip_read, ABlob)].
Definition script_encrypted : script :=
  prefix_ok ++ [(S_plist_loads, APlist (PDict (Some true))); (S_is_dir, ABool false); (S_getinfo, AUnit)].
Example loader_examples :
  object_store_init false false script_good = Ok (2, []) /\
  object_store_init true true script_good = Ok (2, []) /\
  object_store_init true true script_badzip = Err FileFormatError /\
  object_store_init true true script_no_archives = Err FileFormatError /\
  object_store_init true true script_plist_nokey = Err FileFormatError /\
  object_store_init false false script_encrypted = Err UnsupportedError /\
  object_store_init true true script_encrypted = Err UnsupportedError /\
  object_store_init true true (prefix_ok ++ [(S_plist_loads, ARaise OSErrorX)]) = Err FileError.
Proof. vm_compute. repeat split. Qed.
