(* C09 - references in formulas name exactly the stored target cells and table.
   Property theorems only; each is closed by [exact] of a lemma from Proofs/RefsP.v.
   The model (Model/Refs.v) mirrors the tree with the C09 repairs (fixes/C09-*.patch). *)
From Coq Require Import ZArith NArith List Bool.
From NP Require Import Gen.GenConsts Gen.GenRefs Model.PyBase Model.A1 Proofs.A1P Model.Refs Proofs.RefsP Proofs.RefsGen.
Import ListNotations.

(* ---------- cellref_coords ---------- *)
(* single cell: for every host cell and stored (value, absolute) pair whose target lies at a
   non-negative row and a column of the A1 decoder's domain, the printed text parses back to
   exactly the stored target (relative: host + offset, absolute: the stored value), carries
   '$' exactly on the absolute coordinates, and its prefix names exactly the stored table *)
Theorem cellref_coords_cell :
  forall (d : doc) (from : tid) (to : option tid) (tb : tbl) (hr hc r : Z) (ra : bool) (c : Z) (ca : bool),
  wf_doc d -> get_tbl d (target_of from to) = Some tb ->
  (0 <= coord ra r hr)%Z -> (0 <= coord ca c hc < 18278)%Z ->
  exists pre body,
    ref_text d from hr hc to (NCell (Some (r, ra)) (Some (c, ca))) = Ok (pre, body, None) /\
    xl_cell_to_rowcol body = Ok (coord ra r hr, coord ca c hc) /\
    cell_marks body = Some (ra, ca) /\
    resolve_table d from pre = [target_of from to].
Proof. exact cellref_cell_lemma. Qed.
Print Assumptions cellref_coords_cell.

(* rectangle: the stored begin corner is printed before ':' and the stored end corner after it,
   all 16 combinations of absolute flags, range_end defaulting to range_begin *)
Theorem cellref_coords_range :
  forall (d : doc) (from : tid) (to : option tid) (tb : tbl) (hr hc : Z) (bra bca era eca : bool)
         (absr relr absc relc : list ise) (r1 c1 r2 c2 : Z),
  wf_doc d -> get_tbl d (target_of from to) = Some tb ->
  stored_begin bra absr relr hr = Some r1 -> stored_end era absr relr hr = Some r2 ->
  stored_begin bca absc relc hc = Some c1 -> stored_end eca absc relc hc = Some c2 ->
  (0 <= r1 < MAX_ROW)%Z -> (0 <= r2 < MAX_ROW)%Z -> (0 <= c1 < 18278)%Z -> (0 <= c2 < 18278)%Z ->
  exists pre a b,
    ref_text d from hr hc to (NTract bra bca era eca absr relr absc relc) = Ok (pre, a, Some b) /\
    xl_cell_to_rowcol a = Ok (r1, c1) /\ cell_marks a = Some (bra, bca) /\
    xl_cell_to_rowcol b = Ok (r2, c2) /\ cell_marks b = Some (era, eca) /\
    resolve_table d from pre = [target_of from to].
Proof. exact cellref_rect_lemma. Qed.
Print Assumptions cellref_coords_range.

(* ---------- open_ends ---------- *)
(* a tract whose column part is the 0x7FFF open end prints as a row span of the stored row
   indices: by number (with '$' on the absolute ends) unless both rows have a unique header
   name, then by those two names; begin before end *)
Theorem open_ends_rows :
  forall (d : doc) (from : tid) (to : option tid) (tb : tbl) (hr hc : Z) (bra bca era eca : bool)
         (absr relr : list ise) (r1 r2 : Z) (rng : list (option sref)) (o1 o2 : option sref),
  get_tbl d (target_of from to) = Some tb ->
  stored_begin bra absr relr hr = Some r1 -> stored_end era absr relr hr = Some r2 ->
  (r1 < MAX_ROW)%Z -> (0 <= r2 < MAX_ROW)%Z ->
  ranges d (target_of from to) ROW = Ok rng ->
  lookup_range rng r1 = Ok o1 -> lookup_range rng r2 = Ok o2 ->
  exists pre,
    ref_text d from hr hc to (NTract bra bca era eca absr relr [mk_ise MAX_COL None] []) =
    Ok (pre, fst (row_span_text bra era r1 r2 o1 o2), Some (snd (row_span_text bra era r1 r2 o1 o2))).
Proof. exact open_rows_lemma. Qed.
Print Assumptions open_ends_rows.

(* the same for the 0x7FFFFFFF open row end: a column span of the stored column indices *)
Theorem open_ends_cols :
  forall (d : doc) (from : tid) (to : option tid) (tb : tbl) (hr hc : Z) (bra bca era eca : bool)
         (absc relc : list ise) (c1 c2 : Z) (rng : list (option sref)) (o1 o2 : option sref),
  get_tbl d (target_of from to) = Some tb ->
  stored_begin bca absc relc hc = Some c1 -> stored_end eca absc relc hc = Some c2 ->
  (c1 < MAX_COL)%Z -> (0 <= c2 < MAX_COL)%Z ->
  ranges d (target_of from to) COL = Ok rng ->
  lookup_range rng c1 = Ok o1 -> lookup_range rng c2 = Ok o2 ->
  exists pre,
    ref_text d from hr hc to (NTract bra bca era eca [mk_ise MAX_ROW None] [] absc relc) =
    Ok (pre, fst (col_span_text bca eca c1 c2 o1 o2), Some (snd (col_span_text bca eca c1 c2 o1 o2))).
Proof. exact open_cols_lemma. Qed.
Print Assumptions open_ends_cols.

(* a header name printed for line z is the label stored for that line, and z is a body line *)
Theorem header_name_is_label :
  forall (d : doc) (t : tid) (tb : tbl) (a : axis) (rng : list (option sref)) (z : Z) (r : sref),
  get_tbl d t = Some tb -> ranges d t a = Ok rng -> lookup_range rng z = Ok (Some r) ->
  nth_error (axis_labels tb a) (Z.to_nat z) = Some (s_name r) /\ (axis_first tb a <= Z.to_nat z)%nat.
Proof. exact ranges_label. Qed.
Print Assumptions header_name_is_label.

(* ---------- prefix_unambiguous ---------- *)
(* for every naming configuration with distinct sibling table names and distinct sheet names
   (names may repeat across sheets or equal a sheet's name), every host and every target table:
   the prefix expand_ref chooses for a coordinate text resolves to exactly one table, the stored one *)
Theorem prefix_unambiguous :
  forall (d : doc) (host tgt : tid) (tb : tbl) (r : list N) (is_abs : bool) (p : list (list N) * list N),
  wf_doc d -> get_tbl d tgt = Some tb ->
  qualify d host tgt r is_abs = Ok p ->
  resolve_text d host p = [(tgt, quote_ref (dollar is_abs ++ r))].
Proof. exact prefix_unambiguous_lemma. Qed.
Print Assumptions prefix_unambiguous.

(* ... and the qualification never fails for an existing target *)
Theorem qualify_total :
  forall (d : doc) (host tgt : tid) (tb : tbl) (r : list N) (is_abs : bool),
  get_tbl d tgt = Some tb -> exists p, qualify d host tgt r is_abs = Ok p.
Proof. exact qualify_ok. Qed.
Print Assumptions qualify_total.

(* uniqueness ignoring case (any normalisation f of names) is a special case of wf_doc *)
Theorem wf_doc_ignoring_case :
  forall (f : list N -> list N) (d : doc),
  NoDup (map (fun s : sheet => f (fst s)) d) ->
  Forall (fun s : sheet => NoDup (map (fun t => f (t_name t)) (snd s))) d ->
  wf_doc d.
Proof. exact wf_doc_upto. Qed.
Print Assumptions wf_doc_ignoring_case.

(* ---------- label_scope_sound ---------- *)
(* every header name the printer holds for line i of axis a of the target table, printed from
   any host with whatever qualification expand_ref chooses (none, table::, sheet::table::),
   resolves - innermost scope first for a bare name - to exactly that line of exactly that table *)
Theorem label_scope_sound :
  forall (d : doc) (host tgt : tid) (htb tb : tbl) (a : axis) (i : nat) (rng : list (option sref))
         (r : sref) (is_abs : bool) (p : list (list N) * list N),
  wf_doc d -> get_tbl d host = Some htb -> get_tbl d tgt = Some tb ->
  ranges d tgt a = Ok rng -> nth_error rng i = Some (Some r) ->
  expand_ref d host tgt (RName r) is_abs false = Ok p ->
  snd p = quote_ref (dollar is_abs ++ s_name r) /\
  resolve_label d host (fst p) (s_name r) = [(tgt, (a, i))].
Proof. exact label_scope_lemma. Qed.
Print Assumptions label_scope_sound.

(* a span between two named lines a:b (the first name carries the prefix; none at all when either
   name is unique in the document): the tables in which both names are labels - looked for in the
   tables the prefix names, or innermost scope first - are exactly the stored table, and the two
   names are exactly the stored begin and end lines, in that order *)
Theorem label_span_sound :
  forall (d : doc) (host tgt : tid) (htb tb : tbl) (a : axis) (i1 i2 : nat) (rng : list (option sref))
         (r1 r2 : sref) (abs1 abs2 : bool) (pre : list (list N)) (b1 b2 : list N),
  wf_doc d -> get_tbl d host = Some htb -> get_tbl d tgt = Some tb ->
  ranges d tgt a = Ok rng -> nth_error rng i1 = Some (Some r1) -> nth_error rng i2 = Some (Some r2) ->
  format_named_span d host tgt r1 r2 abs1 abs2 = Ok (pre, b1, Some b2) ->
  b1 = quote_ref (dollar abs1 ++ s_name r1) /\ b2 = quote_ref (dollar abs2 ++ s_name r2) /\
  resolve_span d host pre (s_name r1) (s_name r2) = [(tgt, ((a, i1), (a, i2)))].
Proof. exact label_span_lemma. Qed.
Print Assumptions label_span_sound.

(* the quoting rule is invertible: the printed body gives back the '$' mark and the label *)
Theorem label_decode :
  forall (is_abs : bool) (n : list N),
  match n with [] => True | c :: _ => c <> c_dollar end ->
  decode_label (quote_ref (dollar is_abs ++ n)) = (is_abs, n).
Proof. exact decode_label_lemma. Qed.
Print Assumptions label_decode.

(* translator tie: the open-end sentinels node_to_ref passes and tests, and the characters that
   force quoting (keys of constants.OPERATOR_PRECEDENCE), are the ones the model uses *)
Theorem gen_refs_constants :
  GenRefs.sentinel_args = [MAX_ROW; MAX_ROW; MAX_COL; MAX_COL] /\
  GenRefs.open_tests = [MAX_ROW; MAX_ROW; MAX_COL; MAX_COL] /\
  map fst GenConsts.OPERATOR_PRECEDENCE = map (fun c => [c]) op_chars.
Proof. exact gen_refs_constants_lemma. Qed.
Print Assumptions gen_refs_constants.

(* ---------- non-vacuity ---------- *)
(* two sheets "S","T"; tables "A","B" in the first and "A" in the second; headers 1x1, labels
   x,y / y,z ... ; a cell, a rectangle, a row span and a label, each resolved back *)
Definition ex_tbl (n : list N) (rl cl : list (list N)) : tbl := mk_tbl n 1 1 ([] :: rl) ([] :: cl).
Definition ex_doc : doc :=
  [ ([83], [ex_tbl [65] [[120]; [121]] [[112]; [113]]; ex_tbl [66] [[121]; [122]] [[114]; [115]]]);
    ([84], [ex_tbl [65] [[119]; [119]] [[117]; [118]]]) ]%N.

Example ex_wf : wf_doc ex_doc.
Proof.
  split; [|repeat constructor]; cbn; repeat constructor; cbn; intuition discriminate.
Qed.

Example ex_refs :
  (* $B3 in table T::A seen from S::A (name A repeated across sheets): sheet::table:: *)
  ref_text ex_doc (0, 0)%nat 1%Z 1%Z (Some (1, 0)%nat) (NCell (Some (2%Z, true)) (Some (0%Z, false)))
    = Ok ([[84]; [65]], [66; 36; 51], None)%N /\
  resolve_table ex_doc (0, 0)%nat [[84]; [65]]%N = [(1, 0)%nat] /\
  (* B, unique in the document, from the other sheet: table:: *)
  ref_text ex_doc (1, 0)%nat 2%Z 2%Z (Some (0, 1)%nat)
     (NTract false true true false [mk_ise 1%Z None] [mk_ise (-1)%Z None] [mk_ise 2%Z None] [mk_ise (-1)%Z None])
    = Ok ([[66]], [36; 67; 50], Some [66; 36; 50])%N /\
  (* row 1 of S::B from S::A by its header name y - y is also a row of S::A, so the table name is needed *)
  ref_text ex_doc (0, 0)%nat 1%Z 1%Z (Some (0, 1)%nat) (NCell (Some (0%Z, false)) None)
    = Ok ([[66]], [121], None)%N /\
  (* rows 1..2 of S::B by their names y:z - bare, because z is unique in the document *)
  ref_text ex_doc (0, 0)%nat 1%Z 1%Z (Some (0, 1)%nat)
     (NTract false false false false [] [mk_ise 0%Z (Some 1%Z)] [mk_ise MAX_COL None] [])
    = Ok ([], [121], Some [122])%N /\
  resolve_label ex_doc (0, 0)%nat [[66]] [121]%N = [((0, 1)%nat, (ROW, 1%nat))] /\
  resolve_span ex_doc (0, 0)%nat [] [121] [122]%N = [((0, 1)%nat, ((ROW, 1%nat), (ROW, 2%nat)))] /\
  (* the duplicated label w of T::A is printed by number *)
  ref_text ex_doc (1, 0)%nat 1%Z 1%Z None
     (NTract true false true false [mk_ise 1%Z (Some 2%Z)] [] [mk_ise MAX_COL None] [])
    = Ok ([], [36; 50], Some [36; 51])%N.
Proof. vm_compute. repeat split. Qed.
