(* C09 - placeholder while the model is being validated; replaced by the real statements *)
From Coq Require Import ZArith NArith List Bool.
From NP Require Import Model.PyBase Model.A1 Model.Refs.
Import ListNotations.

Theorem range_end_default : forall b, range_end (mk_ise b None) = b.
Proof. reflexivity. Qed.
Print Assumptions range_end_default.
