(* C01 - values written to cells are read back exactly after save and reopen.
   Property theorems only; each is closed by [exact] of a lemma from Proofs/. *)
From Coq Require Import ZArith NArith List Bool Reals.
From Flocq Require Import Core.
From NP Require Import Gen.GenConsts Model.PyBase Model.D128 Model.TileCodec Model.DataList Model.CellRecord
  Proofs.A1P Proofs.D128P Proofs.TileCodecP Proofs.DataListP Proofs.CellRecordP Proofs.FloatConv.
From NP Require Import Model.Digits Proofs.DigitsP.
Import ListNotations.

(* --- numbers: the 16-byte decimal layout --- *)
Theorem d128_bits_roundtrip : forall neg m e, (m < 2 ^ 112)%N -> (e < 2 ^ 14)%N ->
  unpack_bits (pack_bits neg m e) = (neg, m, (Z.of_N e - BIAS)%Z).
Proof. exact d128_bits_roundtrip_lemma. Qed.
Print Assumptions d128_bits_roundtrip.

(* the stored decimal has EXACTLY the value of the digits written (no float arithmetic on the way) *)
Theorem d128_value_exact : forall neg D k x,
  D <> 0%N -> (D < 10 ^ N.of_nat k)%N -> (k <= 17)%nat ->
  (0 <= x - Z.of_nat (17 - k) + BIAS < 16384)%Z ->
  let s := N.of_nat (17 - k) in
  unpack_decimal (pack_decimal neg D k x) = (neg, (D * 10 ^ s)%N, (x - Z.of_N s)%Z).
Proof. exact d128_value_exact_lemma. Qed.
Print Assumptions d128_value_exact.

(* every float (and every int of at most 17 digits) survives, given CPython's repr/int-division are correctly
   rounded and inverse to each other (Section hypotheses, named in the trusted base) *)
Theorem number_roundtrip :
  forall (F : Type) (float_of_dec : bool -> N -> Z -> F) (repr_dec : F -> bool * N * nat * Z),
  (forall x s D k e, repr_dec x = (s, D, k, e) -> float_of_dec s D e = x) ->
  (forall x s D k e, repr_dec x = (s, D, k, e) -> (D < 10 ^ N.of_nat k)%N /\ (k <= 17)%nat /\ (-400 <= e <= 400)%Z) ->
  (forall s D e n, float_of_dec s (D * 10 ^ n)%N (e - Z.of_N n)%Z = float_of_dec s D e) ->
  (forall s e e', float_of_dec s 0%N e = float_of_dec s 0%N e') ->
  forall x, decode_num F float_of_dec (encode_num F repr_dec x) = x.
Proof. exact number_roundtrip_lemma. Qed.
Print Assumptions number_roundtrip.

(* Table.write rounds floats to 15 significant digits (sigfig on the repr digits, Model/Digits.v, tied to the code by
   C13's streams): a value that already has at most 15 significant digits is stored from its own digits *)
Theorem write_rounding_identity : forall mant ex : Z, (Digits.ndig mant <= 15)%Z -> Digits.round_sig 15 mant ex = (mant, ex).
Proof. exact (DigitsP.round_sig_small 15). Qed.
Print Assumptions write_rounding_identity.

Theorem bias_is_source_constant : GenConsts.DECIMAL128_BIAS = BIAS.
Proof. reflexivity. Qed.
Print Assumptions bias_is_source_constant.

(* --- text: the key a string is stored under reads back that string; earlier keys keep their strings --- *)
Theorem text_roundtrip : forall (d : dl (list N)) (v : list N),
  dl_inv (list N) str_eqb d ->
  let '(k, d') := lookup_key (list N) str_eqb d v in lookup_value (list N) d' k = Ok v.
Proof. exact (lookup_key_value (list N) str_eqb). Qed.
Print Assumptions text_roundtrip.

Theorem texts_roundtrip : forall (vs : list (list N)) (d : dl (list N)),
  dl_inv (list N) str_eqb d ->
  let '(ks, d') := insert_all (list N) str_eqb d vs in
  Forall2 (fun k v => lookup_value (list N) d' k = Ok v) ks vs.
Proof. exact (rekey_preserves_text (list N) str_eqb (fun a b => A1P.str_eqb_eq a b)). Qed.
Print Assumptions texts_roundtrip.

Theorem fresh_datalist_inv : forall d : dl (list N), dl_inv (list N) str_eqb (init (list N) d).
Proof. exact (init_inv (list N) str_eqb). Qed.
Print Assumptions fresh_datalist_inv.

(* --- rows and tiles: any number of rows (tiles), any number of columns --- *)
Theorem row_roundtrip : forall cs offs st, aligned cs ->
  pack_row cs = Ok (offs, st) -> split_row true st offs (length cs) = cs.
Proof. exact row_roundtrip_lemma. Qed.
Print Assumptions row_roundtrip.

Theorem table_storage_roundtrip : forall ncols rows tiles, rect ncols rows ->
  encode_table rows = Ok tiles -> decode_table ncols tiles = rows.
Proof. exact table_storage_roundtrip_lemma. Qed.
Print Assumptions table_storage_roundtrip.

(* encoding succeeds when each row's records stay below 2^17 bytes (1000 columns x 76-byte records do) *)
Theorem table_storage_total : forall rows,
  Forall (fun cs => (length (row_storage cs) < N.to_nat 131072)%nat) rows -> exists ts, encode_table rows = Ok ts.
Proof. exact encode_table_ok. Qed.
Print Assumptions table_storage_total.

(* cell records are 4-byte aligned, which is what the wide (>>2) offsets need *)
Theorem records_aligned : forall c, wf_cell c = true -> Nat.modulo (length (CellRecord.encode c)) 4 = 0%nat.
Proof. exact (fun c H => proj2 (length_and_alignment_lemma c H)). Qed.
Print Assumptions records_aligned.

(* --- dates and durations: binary64 seconds --- *)
Theorem seconds_roundtrip : forall n : Z, (Z.abs n < 2^53)%Z -> RN (IZR n) = IZR n /\ Zfloor (RN (IZR n)) = n.
Proof. exact seconds_roundtrip_lemma. Qed.
Print Assumptions seconds_roundtrip.

(* microsecond resolution, both signs, |offset| < 2^32 s (136 years either side of the 2001 epoch; durations of
   +-100 years): total_seconds() is one correctly rounded division, timedelta(seconds=f) splits with modf
   (truncation towards zero), multiplies the fraction by 10^6 in binary64 and rounds half-even *)
Theorem micros_roundtrip : forall u : Z, (Z.abs u < 2^32 * 10^6)%Z ->
  let f := RN (IZR u / 1000000) in
  let q := Ztrunc f in
  let g := RN ((f - IZR q) * 1000000) in
  (q * 10^6 + ZnearestE g)%Z = u.
Proof. exact micros_roundtrip_lemma. Qed.
Print Assumptions micros_roundtrip.

(* non-vacuity *)
Example d128_example : unpack_decimal (pack_decimal true 1234 4 (-2)) = (true, 12340000000000000%N, (-15)%Z).
Proof. vm_compute. reflexivity. Qed.
Example table_example :
  match encode_table (repeat [Some [1;2;3;4]%N; None; Some [5;6;7;8;9;9;9;9]%N] 600) with
  | Ok ts => length ts = 3%nat /\ decode_table 3 ts = repeat [Some [1;2;3;4]%N; None; Some [5;6;7;8;9;9;9;9]%N] 600
  | Err _ => False end.
Proof. vm_compute. split; reflexivity. Qed.
