(* Generic line driver: every extracted entry module exposes
     handle : n list -> n list     and     n_of_bits : bool list -> n
   All parsing/printing is extracted Coq; this file only moves characters. *)
open Entry
let rec bits k n = if k = 0 then [] else ((n land 1) = 1) :: bits (k-1) (n lsr 1)
let tbl = Array.init 256 (fun i -> n_of_bits (bits 8 i))
let rec int_of_pos = function XH -> 1 | XO p -> 2 * int_of_pos p | XI p -> 2 * int_of_pos p + 1
let int_of_n = function N0 -> 0 | Npos p -> int_of_pos p
let () =
  let buf = Buffer.create 65536 in
  try while true do
    let l = input_line stdin in
    let cs = List.init (String.length l) (fun i -> tbl.(Char.code l.[i])) in
    let out = handle cs in
    Buffer.clear buf;
    List.iter (fun c -> Buffer.add_char buf (Char.chr ((int_of_n c) land 255))) out;
    Buffer.add_char buf '\n';
    print_string (Buffer.contents buf)
  done with End_of_file -> ()
