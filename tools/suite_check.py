"""Run /repo's test suite (guard off) and compare the passing set with BASELINE.json's stable_pass."""
import json, os, subprocess, sys, xml.etree.ElementTree as ET
repo = sys.argv[1] if len(sys.argv) > 1 else "/repo"
env = {k: v for k, v in os.environ.items() if k != "NUMBERS_PARSER_VERIF"}
env["PYTHONPATH"] = f"{repo}/src"
xml = f"/tmp/suite_{os.getpid()}.xml"
subprocess.run(["/venv/bin/python", "-m", "pytest", "-q", "-p", "no:cacheprovider", "--timeout=900", "-n", "8",
                "--continue-on-collection-errors", f"--junitxml={xml}"], cwd=repo, env=env,
               stdout=subprocess.DEVNULL, stderr=subprocess.DEVNULL)
passed = set()
for tc in ET.parse(xml).getroot().iter("testcase"):
    if not any(c.tag in ("failure", "error", "skipped") for c in tc):
        passed.add(f"{tc.get('classname')}::{tc.get('name')}")
os.remove(xml)
base = set(json.load(open("/root/.vp/BASELINE.json"))["stable_pass"])
missing = sorted(base - passed)
print(f"passed={len(passed)} baseline={len(base)} missing_from_baseline={len(missing)}")
for m in missing:
    print("  MISSING", m)
sys.exit(1 if missing else 0)
