"""Translator plug-in for C13: re-emits the currency tables of numbers_parser.currencies and the
number-format constants the NumFormat model uses (coq/Gen/GenC13.v).  Fail-closed: any surprise in
the shape of the tables yields the marker definition `c13_unavailable` and the tie in
Props/C13.v stops compiling."""
from __future__ import annotations

from tools.translate import HEADER, coq_str, fresh_import


def tables_text(prefix: str = "") -> str:
    cur = fresh_import("numbers_parser.currencies")
    con = fresh_import("numbers_parser.constants")
    syms = cur.CURRENCY_SYMBOLS
    codes = cur.CURRENCIES
    if not isinstance(syms, dict) or not isinstance(codes, list):
        raise TypeError("currency tables")
    for k, v in syms.items():
        if not (isinstance(k, str) and isinstance(v, str)):
            raise TypeError("currency symbol entry")
    for k in codes:
        if not isinstance(k, str):
            raise TypeError("currency code")
    out = []
    items = ";\n  ".join(f"({coq_str(k)}, {coq_str(v)})" for k, v in syms.items())
    out.append(f"Definition {prefix}currency_symbols : list (list N * list N) :=\n [{items}].")
    items = ";\n  ".join(coq_str(k) for k in codes)
    out.append(f"Definition {prefix}currencies : list (list N) :=\n [{items}].")
    out.append(f"Definition {prefix}max_significant_digits : Z := ({int(con.MAX_SIGNIFICANT_DIGITS)})%Z.")
    out.append(f"Definition {prefix}decimal_places_auto : Z := ({int(con.DECIMAL_PLACES_AUTO)})%Z.")
    out.append(f"Definition {prefix}max_base : Z := ({int(con.MAX_BASE)})%Z.")
    out.append(f"Definition {prefix}star_rating_value : list N := {coq_str(con.STAR_RATING_VALUE)}.")
    fa = con.FractionAccuracy
    items = "; ".join(f"({int(x)})%Z" for x in fa)
    out.append(f"Definition {prefix}fraction_accuracies : list Z := [{items}].")
    ns = con.NegativeNumberStyle
    items = "; ".join(f"({int(x)})%Z" for x in ns)
    out.append(f"Definition {prefix}negative_styles : list Z := [{items}].")
    return "\n".join(out) + "\n"


def gen_c13(status: dict) -> str:
    try:
        text = HEADER + tables_text()
        status["c13"] = "ok"
        return text
    except Exception as e:  # fail closed
        status["c13"] = f"unavailable: {type(e).__name__}: {e}"
        return HEADER + "Definition c13_unavailable := tt.\n"


GENERATORS = {"GenC13.v": gen_c13}

if __name__ == "__main__":
    import sys
    sys.path.insert(0, "/repo/src")
    print(tables_text())
