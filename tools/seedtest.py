"""Confirm a seeded defect and run the property's check against it.
   usage: tools/seedtest.py <PROP> <seed-dir> <seed-id> [--tier quick]
   Uses a scratch worktree of /repo (never /repo itself); keeps the seed under /verif/seeded/<seed-id>/ when confirmed."""
import json, os, shutil, subprocess, sys, time
from pathlib import Path
V = Path(__file__).resolve().parent.parent
prop, sdir, sid = sys.argv[1], Path(sys.argv[2]), sys.argv[3]
wt = Path(f"/tmp/seedwt_{sid}")
def sh(cmd, **k):
    return subprocess.run(cmd, shell=True, text=True, capture_output=True, **k)
sh(f"git -C /repo worktree remove --force {wt}")
r = sh(f"git -C /repo worktree add --detach {wt} HEAD")
assert r.returncode == 0, r.stderr
res = {"property": prop, "seed": sid, "repo_head": sh("git -C /repo rev-parse --short HEAD").stdout.strip()}
try:
    env = dict(os.environ, PYTHONPATH=f"{wt}/src")
    clean = sh(f"/venv/bin/python {sdir}/demo.py", env=env, cwd="/tmp")
    res["demo_on_clean_exit"] = clean.returncode
    ap = sh(f"git -C {wt} apply {sdir}/patch.diff")
    res["patch_applies"] = ap.returncode == 0
    if ap.returncode != 0:
        res["error"] = ap.stderr[-400:]
    else:
        mod = sh(f"/venv/bin/python {sdir}/demo.py", env=env, cwd="/tmp")
        res["demo_on_mutant_exit"] = mod.returncode
        res["demo_output"] = (mod.stdout + mod.stderr)[-600:]
        st = sh(f"python3 {V}/tools/suite_check.py {wt}")
        res["suite"] = st.stdout.strip().splitlines()[0] if st.stdout else st.stderr[-200:]
        res["suite_ok"] = st.returncode == 0
        t0 = time.time()
        ck = sh(f"cd {V} && VERIF_EVIDENCE_DIR=/tmp/seed_evidence VERIF_REPO={wt} ./check {prop} --tier quick")
        res["check_exit"] = ck.returncode
        res["check_wall_s"] = round(time.time() - t0)
        res["check_lines"] = [l for l in ck.stdout.splitlines() if l.startswith(("VIOLATION", "KNOWN-FINDING", "CHECK-ERROR"))][:8]
        viol = [l for l in ck.stdout.splitlines() if l.startswith("VIOLATION")]
        res["detected"] = bool(viol)
        if viol:
            rp = viol[0].split("replay=")[1].split()[0]
            try:
                d = json.loads(Path(rp).read_text())
                res["replay_kind"] = d.get("kind")
                res["replay_signature"] = d.get("signature")
                res["replay_detail"] = str(d.get("detail"))[:300]
            except Exception as e:
                res["replay_kind"] = f"unreadable: {e}"
finally:
    sh(f"git -C /repo worktree remove --force {wt}")
confirmed = res.get("patch_applies") and res.get("demo_on_clean_exit") == 0 and res.get("demo_on_mutant_exit") == 1 and res.get("suite_ok")
res["confirmed"] = bool(confirmed)
if confirmed:
    out = V / "seeded" / sid
    out.mkdir(parents=True, exist_ok=True)
    shutil.copy(sdir / "patch.diff", out / "patch.diff")
    shutil.copy(sdir / "demo.py", out / "demo.py")
    meta = {}
    if (sdir / "meta.json").exists():
        try: meta = json.loads((sdir / "meta.json").read_text())
        except Exception: meta = {"raw": (sdir / "meta.json").read_text()[:2000]}
    meta["verification"] = res
    (out / "meta.json").write_text(json.dumps(meta, indent=1))
print(json.dumps(res, indent=1))
