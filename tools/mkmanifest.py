"""Regenerates MANIFEST.json from harness/registry.json (kept valid at all times)."""
import json
from pathlib import Path
V = Path(__file__).resolve().parent.parent
reg = json.loads((V / "harness" / "registry.json").read_text())
for frag in sorted((V / "harness" / "registry.d").glob("*.json")):
    reg.update(json.loads(frag.read_text()))
props = [json.loads(l) for l in (V / "properties.jsonl").read_text().splitlines() if l.strip()]
checks, na = [], []
for p in props:
    pid = p["id"]
    r = reg.get(pid)
    if r and r.get("claimed") and pid in reg.get("_ready", []):
        checks.append({
            "property_id": pid,
            "quick_cmd": f"./check {pid} --tier quick",
            "thorough_cmd": f"./check {pid} --tier thorough",
            "evidence_file": f"/verif/evidence/{pid}.json",
            "replay_cmd_template": f"./check {pid} --replay {{path}}",
            "engine": "coq-model+correspondence",
            "level_claimed": {"category": r["category"], "text": r["text"], "design_ref": r.get("design_ref", "DESIGN.md §4")},
            "level_note": r["note"],
            "technique": r["technique"],
        })
    else:
        na.append({"property_id": pid, "reason": (r or {}).get("reason", "check not built yet in this round; see DESIGN.md §4 for the plan")})
m = {
    "version": 1,
    "setup_cmd": "./check --setup",
    "hooks": {
        "guard": "NUMBERS_PARSER_VERIF",
        "enable": "checks run /repo/src in-process with NUMBERS_PARSER_VERIF=1 (set by ./check); nothing is built",
        "baseline_off_cmd": "cd /repo && env -u NUMBERS_PARSER_VERIF /venv/bin/python -m pytest -ra -q -p no:cacheprovider --timeout=900 --continue-on-collection-errors",
        "source_commits": reg.get("_hook_commits", []),
        "add_only": True,
    },
    "engines": [{
        "name": "coq-model+correspondence",
        "path": "/verif/coq, /verif/harness, /verif/driver, /verif/tools",
        "serves_properties": [c["property_id"] for c in checks],
        "kind_free_text": "Coq 8.16.1 development (executable Gallina models, proofs, one property file per property with Print Assumptions), models extracted to OCaml and run in lock-step with the Python implementation (differential correspondence), translator-regenerated tables checked inside Coq, implementation-only oracles for witness search",
    }],
    "checks": checks,
    "not_applicable": na,
    "notes": "See DESIGN.md. known_findings.json lists recorded defects; fixed entries suppress nothing.",
}
(V / "MANIFEST.json").write_text(json.dumps(m, indent=1) + "\n")
print(len(checks), "claimed;", len(na), "not claimed")
