"""Regenerates the 'as built' tables of DESIGN.md (between the AUTOGEN markers) from evidence/, known_findings.d/, seeded/ and /repo's git log."""
import json, re, subprocess, glob
from pathlib import Path
V = Path(__file__).resolve().parent.parent
out = []
props = [json.loads(l) for l in (V / "properties.jsonl").read_text().splitlines() if l.strip()]
man = json.loads((V / "MANIFEST.json").read_text())
claimed = {c["property_id"]: c for c in man["checks"]}
out.append("### 8.1 Checks as built (from the evidence files of the last run on the unchanged tree)\n")
out.append("| id | level | theorems (Print Assumptions) | quick wall s | evaluations | distinct non-trivial | disagreements | open findings hit |")
out.append("|---|---|---|---|---|---|---|---|")
for p in props:
    pid = p["id"]
    ev = V / "evidence" / f"{pid}.json"
    if pid not in claimed or not ev.exists():
        out.append(f"| {pid} | not claimed | | | | | | |")
        continue
    e = json.loads(ev.read_text()); c = e["coverage"]
    th = c.get("theorems", {})
    closed = sum(1 for v in th.values() if v == "closed")
    ax = len(th) - closed
    out.append(f"| {pid} | {e['level']} | {len(th)} ({closed} closed, {ax} with stdlib axioms/primitives) | {e['wall_s']:.0f} | {c['evaluations']} | {c['distinct_nontrivial']} | {c['disagreements']} | {', '.join(c.get('known_findings_hit', {}).keys()) or '-'} |")
out.append("")
out.append("### 8.1b What each check proves and how it is tied to the code (from harness/registry.d and coq/Props)\n")
import re as _re
for p in props:
    pid = p["id"]
    if pid not in claimed:
        na = [x for x in man.get("not_applicable", []) if x["property_id"] == pid]
        out.append(f"* **{pid}** - not claimed: {na[0]['reason'] if na else ''}")
        continue
    c = claimed[pid]
    pf = V / "coq" / "Props" / f"{pid}.v"
    names = _re.findall(r"^Theorem\s+([\w']+)", pf.read_text(), flags=_re.M) if pf.exists() else []
    out.append(f"* **{pid}** ({c['level_claimed']['category']}) - {c['level_claimed']['text']}  ")
    out.append(f"  Theorems: {', '.join('`'+n+'`' for n in names)}.  ")
    out.append(f"  Assumed / partial: {c['level_note']}")
out.append("")
out.append("### 8.2 Repairs committed to /repo (`fix:` commits, each re-found by its check first) and open findings\n")
log = subprocess.run(["git", "-C", "/repo", "log", "--reverse", "--format=%h %s"], capture_output=True, text=True).stdout.splitlines()
fixes = [l for l in log if l.split(" ", 1)[1].startswith("fix:")]
byc = {}
for f in sorted(glob.glob(str(V / "known_findings.d" / "*.json"))):
    for k in json.loads(Path(f).read_text())["findings"]:
        if k["status"] == "fixed" and k.get("commit"):
            byc.setdefault(k["commit"][:7], set()).add(k["property"])
out.append("| commit | property | subject |")
out.append("|---|---|---|")
for l in fixes:
    h, s = l.split(" ", 1)
    out.append(f"| {h} | {', '.join(sorted(byc.get(h[:7], []))) or '?'} | {s} |")
out.append("")
out.append("Open known findings (genuine defects recorded, not repaired; the check prints `KNOWN-FINDING:` and exits 0):\n")
out.append("| property | signature | what fails |")
out.append("|---|---|---|")
for f in sorted(glob.glob(str(V / "known_findings.d" / "*.json"))):
    for k in json.loads(Path(f).read_text())["findings"]:
        if k["status"] == "open":
            out.append(f"| {k['property']} | `{k['signature']}` | {k['description'][:400]} |")
out.append("")
out.append("### 8.3 Seeded defects (written by fresh sub-agents that saw only the property text) and what caught them\n")
out.append("| seed | what was changed | needs to manifest | caught by (replay kind / oracle signature) |")
out.append("|---|---|---|---|")
for d in sorted(glob.glob(str(V / "seeded" / "*"))):
    m = json.loads((Path(d) / "meta.json").read_text())
    v = m.get("verification", {})
    if v.get("detected"):
        how = f"{v.get('replay_kind')} / `{v.get('replay_signature')}`" if v.get("replay_kind") == "failing-input" else f"{v.get('replay_kind')}"
    else:
        how = "**MISSED**"
    if v.get("property") and v["property"] != Path(d).name[:3]:
        how += f" (by the check of {v['property']}: the change does not touch what {Path(d).name[:3]} lists)"
    out.append(f"| {Path(d).name} | {str(m.get('summary', ''))[:260]} | {str(m.get('what_it_needs_to_manifest', ''))[:220]} | {how} |")
out.append("")
frag = "\n".join(out)
dm = V / "DESIGN.md"
s = dm.read_text()
a, b = "<!-- AUTOGEN:STATUS:BEGIN -->", "<!-- AUTOGEN:STATUS:END -->"
if a in s:
    s = s[:s.index(a) + len(a)] + "\n" + frag + "\n" + s[s.index(b):]
    dm.write_text(s)
    print("DESIGN.md status tables regenerated")
else:
    print(frag[:3000])
