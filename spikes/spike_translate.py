import ast, sys
src=open("/repo/src/numbers_parser/cell.py").read()
tree=ast.parse(src)
cls=[n for n in tree.body if isinstance(n,ast.ClassDef) and n.name=="Cell"][0]
fs={f.name:f for f in cls.body if isinstance(f,ast.FunctionDef)}
def flag_test(t):
    # flags & 0xNN
    if isinstance(t,ast.BinOp) and isinstance(t.op,ast.BitAnd) and isinstance(t.left,ast.Name) and t.left.id=="flags" and isinstance(t.right,ast.Constant): return t.right.value
dec=[]
for st in fs["_from_storage"].body:
    if isinstance(st,ast.If) and (b:=flag_test(st.test)) is not None:
        field=None; width=None
        for s in st.body:
            if isinstance(s,ast.Assign):
                tgt=s.targets[0]; field=tgt.attr if isinstance(tgt,ast.Attribute) else tgt.id
            if isinstance(s,ast.AugAssign) and isinstance(s.target,ast.Name) and s.target.id=="offset" and isinstance(s.value,ast.Constant): width=s.value.value
        if width is None: sys.exit("fail-closed: no width in "+ast.unparse(st.test))
        dec.append((b,field,width))
    elif isinstance(st,ast.AugAssign) and isinstance(st.target,ast.Name) and st.target.id=="offset":
        dec.append(("SKIP",ast.unparse(st.value),None))
print("decode chain:"); [print("  ",x) for x in dec]
enc=[]
for st in fs["_to_buffer"].body:
    if isinstance(st,ast.If) and isinstance(st.test,ast.Compare) and isinstance(st.test.ops[0],ast.IsNot):
        attr=st.test.left.attr; bit=None; extra=None; emits=0
        for s in st.body:
            if isinstance(s,ast.AugAssign) and isinstance(s.op,ast.BitOr) and isinstance(s.target,ast.Name) and s.target.id=="flags": bit=s.value.value
            if isinstance(s,ast.AugAssign) and isinstance(s.target,ast.Subscript): extra=s.value.value
            if isinstance(s,ast.AugAssign) and isinstance(s.target,ast.Name) and s.target.id=="storage": emits+=1
        enc.append((attr,bit,emits,extra))
print("encode chain:"); [print("  ",x) for x in enc]
