From Coq Require Import ZArith NArith List String Ascii Lia DecimalN DecimalString PrimFloat Uint63 FloatOps SpecFloat.
Import ListNotations.
Open Scope N_scope.
Check DecimalN.Unsigned.of_to.
Check NilEmpty.usu.
Eval vm_compute in (NilEmpty.string_of_uint (N.to_uint 1234567)).
Definition f_of_Z (z:Z) : float := of_uint63 (Uint63.of_Z z).
Definition trunc (f: float) : Z :=
  match Prim2SF f with
  | S754_finite s m e => let v := if (0 <=? e)%Z then (Zpos m * 2^e)%Z else (Zpos m / 2^(-e))%Z in if s then (-v)%Z else v
  | _ => 0%Z end.
Definition ok (c:Z) : bool := (trunc (PrimFloat.div (f_of_Z c) 26%float) =? c / 26)%Z.
Definition all_ok := forallb ok (map Z.of_nat (seq 0 18279)).
Time Eval vm_compute in all_ok.
Lemma all_ok_true : all_ok = true. Proof. vm_compute. reflexivity. Qed.
Print Assumptions all_ok_true.
