From Coq Require Import ZArith NArith List Lia DecimalN DecimalString.
Import ListNotations.
Open Scope N_scope.
Definition chr := N.
Fixpoint go (fuel:nat) (n:N) (acc:list chr) : list chr :=
  match fuel with O => acc | S f =>
   if n =? 0 then acc else
   let r := let m := n mod 26 in if m =? 0 then 26 else m in
   go f ((n-1)/26) ((64 + r) :: acc) end.
Definition col_to_name (c:N) : list chr := go (S (N.size_nat (c+1))) (c+1) [].
Definition name_to_col (s:list chr) : N :=
  (fold_left (fun acc ch => acc*26 + (ch - 64)) s 0) - 1.
(* decimal parse of N from a line of digit chars, and print *)
Definition digit_val (c:chr) : N := c - 48.
Definition N_of_digits (s:list chr) : N := fold_left (fun a c => a*10 + digit_val c) s 0.
Fixpoint uint_chars (u:Decimal.uint) : list chr :=
  match u with Decimal.Nil => [] | Decimal.D0 r => 48::uint_chars r | Decimal.D1 r => 49::uint_chars r
  | Decimal.D2 r => 50::uint_chars r | Decimal.D3 r => 51::uint_chars r | Decimal.D4 r => 52::uint_chars r
  | Decimal.D5 r => 53::uint_chars r | Decimal.D6 r => 54::uint_chars r | Decimal.D7 r => 55::uint_chars r
  | Decimal.D8 r => 56::uint_chars r | Decimal.D9 r => 57::uint_chars r end.
Definition N_to_chars (n:N) : list chr := uint_chars (N.to_uint n).
Definition run_line (s:list chr) : list chr :=
  let c := N_of_digits s in let nm := col_to_name c in nm ++ [32] ++ N_to_chars (name_to_col nm).
(* chr <-> OCaml int bridge, built structurally *)
Fixpoint N_of_bits (bs:list bool) : N := match bs with [] => 0 | b::r => (if b then 1 else 0) + 2 * N_of_bits r end.
Require Import ExtrOcamlBasic.
Extraction "a1.ml" run_line N_of_bits.
