open A1
let rec bits k n = if k = 0 then [] else ((n land 1) = 1) :: bits (k-1) (n lsr 1)
let n_of_int i = n_of_bits (bits 21 i)
let rec int_of_pos = function XH -> 1 | XO p -> 2 * int_of_pos p | XI p -> 2 * int_of_pos p + 1
let int_of_n = function N0 -> 0 | Npos p -> int_of_pos p
let () =
  try while true do
    let l = input_line stdin in
    let cs = List.init (String.length l) (fun i -> n_of_int (Char.code l.[i])) in
    let out = run_line cs in
    print_string (String.concat "" (List.map (fun c -> String.make 1 (Char.chr (int_of_n c))) out)); print_newline ()
  done with End_of_file -> ()
