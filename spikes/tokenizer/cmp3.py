import sys, random, subprocess, itertools
sys.path.insert(0,"/repo/src")
import warnings; warnings.simplefilter("ignore")
from numbers_parser.tokenizer import Tokenizer, TokenizerError
def impl(s):
    try:
        t=Tokenizer(s); out=[]
        for x in t.items:
            sub=x.subtype
            if sub in ("NUMBER","RANGE"): sub="OTHER"
            out.append(".".join(str(ord(c)) for c in x.value)+":"+x.type+":"+sub)
        return "OK "+"|".join(out)
    except TokenizerError: return "TOKERR"
    except Exception: return "CRASH"
rnd=random.Random(7)
strings=[]
qa=list("'\"a: \t+") ; full=list("AE19. +-*/^&=<>%×÷≥≤≠(){},;\"'#$!:\n  ")
for n in range(1,9):
    for p in (itertools.product("'\"a: ",repeat=n) if n<=7 else []): strings.append("".join(p))
for _ in range(200000):
    strings.append("".join(rnd.choice(full) for _ in range(rnd.randint(5,30))))
for _ in range(100000):
    strings.append("".join(rnd.choice(qa) for _ in range(rnd.randint(8,20))))
inp="\n".join(" ".join(str(ord(c)) for c in s) for s in strings)+"\n"
m=subprocess.run(["./tokrun"],input=inp.encode(),capture_output=True).stdout.decode().split("\n")
bad=0; stats={}
for s,mo in zip(strings,m):
    io=impl(s); k=io.split(" ")[0]; stats[k]=stats.get(k,0)+1
    if io!=mo:
        bad+=1
        if bad<=10: print("DIFF",repr(s),"impl:",io,"model:",mo)
print(len(strings),"diffs",bad,stats)
