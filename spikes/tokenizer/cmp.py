import sys, itertools, subprocess, time
sys.path.insert(0,"/repo/src")
import warnings; warnings.simplefilter("ignore")
from numbers_parser.tokenizer import Tokenizer, TokenizerError
alpha=list("AE10. +-*/^&=<>%×÷≥≤≠(){},;\"'#$!:")
L=int(sys.argv[1])
def impl(s):
    try:
        t=Tokenizer(s)
        out=[]
        for x in t.items:
            sub=x.subtype
            if sub in ("NUMBER","RANGE"): sub="OTHER"
            out.append(".".join(str(ord(c)) for c in x.value)+":"+x.type+":"+sub)
        return "OK "+"|".join(out)
    except TokenizerError: return "TOKERR"
    except Exception as e: return "CRASH"
strings=[""]+["".join(p) for n in range(1,L+1) for p in itertools.product(alpha,repeat=n)]
extra=['#REF!+1','SUM(#N/A,"a""b")',"'a''b':'c'","'a' : 'b'+1","1.5E+3-2","1E\n+1","TRUE&FALSE",'"a"""',"'a''"]
strings+=extra
t=time.time()
inp="\n".join(" ".join(str(ord(c)) for c in s) for s in strings)+"\n"
m=subprocess.run(["./tokrun"],input=inp.encode(),capture_output=True).stdout.decode().split("\n")
t1=time.time()-t; t=time.time()
bad=0; stats={}
for s,mo in zip(strings,m):
    io=impl(s); k=io.split(" ")[0]; stats[k]=stats.get(k,0)+1
    if io!=mo:
        bad+=1
        if bad<=10: print("DIFF",repr(s),"impl:",io,"model:",mo)
print(len(strings),"strings; model",round(t1,1),"s; impl",round(time.time()-t,1),"s; diffs",bad, stats)
