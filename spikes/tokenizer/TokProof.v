From Coq Require Import List Arith NArith Bool Lia.
Import ListNotations.
Require Import Tok.
Open Scope N_scope.

Definition flat_items (its:list token) : str := concat (map tval (rev its)).
Definition flat (s:st) : str := flat_items (items s) ++ rev (tokbuf s).

Lemma flat_items_cons t its : flat_items (t :: its) = flat_items its ++ tval t.
Proof. unfold flat_items. cbn [rev]. rewrite map_app, concat_app. cbn. now rewrite app_nil_r. Qed.

Lemma dropN_firstn n (s:str) : firstn n s ++ dropN n s = s.
Proof. revert s; induction n as [|n IH]; intros [|c r]; cbn; auto. now rewrite IH. Qed.

Lemma make_operand_val v : tval (make_operand v) = v.
Proof. unfold make_operand. destruct v as [|c r]; auto.
  destruct (c =? DQ); auto. destruct (c =? HASH); auto. destruct (_ || _); auto. Qed.

Lemma flat_save s : flat (save_token s) = flat s.
Proof. unfold save_token, flat. destruct (tokbuf s) as [|c b] eqn:E; [now rewrite E|].
  cbn [items tokbuf]. rewrite flat_items_cons, make_operand_val. cbn [rev]. now rewrite app_nil_r. Qed.
Lemma tokbuf_save s : tokbuf (save_token s) = [].
Proof. unfold save_token. destruct (tokbuf s) eqn:E; auto. Qed.

Lemma prefix_firstn p s : prefix p s = true -> firstn (length p) s = p.
Proof. revert s; induction p as [|x p IH]; intros [|y s]; cbn; auto; try discriminate.
  intros H. apply andb_prop in H as [H1 H2]. apply N.eqb_eq in H1. subst. now rewrite IH. Qed.

Lemma mem_In c l : mem c l = true -> In c l.
Proof. induction l as [|x l IH]; cbn; [discriminate|]. intros H. apply orb_prop in H as [H|H]; [left; symmetry; now apply N.eqb_eq|right; auto]. Qed.
Lemma In_mem c l : In c l -> mem c l = true.
Proof. induction l as [|x l IH]; cbn; [tauto|]. intros [->|H]; [now rewrite N.eqb_refl|rewrite IH by auto; apply orb_true_r]. Qed.

Lemma operators_flush c : mem c operators = true -> mem c enders = true.
Proof. intros H. apply mem_In in H. apply In_mem.
  assert (F : forallb (fun c => mem c enders) operators = true) by (vm_compute; reflexivity).
  rewrite forallb_forall in F. apply mem_In. auto. Qed.

(* pushing an item when the pending buffer is empty appends its text *)
Lemma flat_push s t : tokbuf s = [] -> flat (push_item s t) = flat s ++ tval t.
Proof. intros E. unfold flat, push_item; cbn [items tokbuf]. rewrite flat_items_cons, E. cbn. now rewrite !app_nil_r. Qed.

Ltac inv H := inversion H; subst; clear H.

Lemma step_conserves s inp s' m :
  step s inp = Ok (s', m) -> flat s' ++ dropN (N.to_nat m) inp = flat s ++ inp.
Proof.
  unfold step. destruct inp as [|c rest]; [discriminate|].
  destruct (mem c [PLUS; MINUS] && _ && _).
  { intros H; inv H. unfold flat; cbn [items tokbuf rev]. change (N.to_nat 1) with 1%nat. cbn [dropN].
    now rewrite <- !app_assoc. }
  destruct (mem c enders) eqn:Een.
  - (* a token ender: the pending operand is flushed first *)
    rewrite <- (flat_save s). pose proof (tokbuf_save s) as Eb. set (s1 := save_token s) in *. clearbody s1.
    destruct ((c =? DQ) || (c =? SQ)) eqn:Eq.
    { exfalso. apply orb_prop in Eq as [Eq|Eq]; apply N.eqb_eq in Eq; subst; vm_compute in Een; discriminate. }
    destruct (c =? HASH) eqn:Eh. { exfalso. apply N.eqb_eq in Eh; subst; vm_compute in Een; discriminate. }
    destruct (mem c operators).
    { destruct rest as [|c2 r2]; [|destruct (_ || _ || _)]; intros H; inv H; rewrite flat_push by auto; cbn [tval];
        rewrite <- app_assoc; reflexivity. }
    destruct (c =? LB) eqn:E1. { exfalso. apply N.eqb_eq in E1; subst; vm_compute in Een; discriminate. }
    destruct (c =? LP) eqn:E2. { exfalso. apply N.eqb_eq in E2; subst; vm_compute in Een; discriminate. }
    destruct ((c =? RP) || (c =? RB)).
    { destruct (stack s1) as [|o stk]; [discriminate|]. destruct (_ =? c) eqn:Ec; [|discriminate]. apply N.eqb_eq in Ec.
      intros H; inv H. unfold flat; cbn [items tokbuf]. rewrite flat_items_cons, Eb. cbn [tval rev]. rewrite !app_nil_r, <- app_assoc.
      reflexivity. }
    destruct (c =? SEMI) eqn:E3.
    { intros H; inv H. rewrite flat_push by auto. cbn [tval]. apply N.eqb_eq in E3. subst. now rewrite <- app_assoc. }
    destruct (c =? COMMA) eqn:E4.
    { intros H; inv H. rewrite flat_push by auto. apply N.eqb_eq in E4. subst.
      destruct (stack s1) as [|top ?]; [|destruct (ty_eqb _ _)]; cbn [tval]; now rewrite <- app_assoc. }
    intros H; inv H. unfold flat; cbn [items tokbuf rev]. now rewrite <- !app_assoc.
  - (* not an ender *)
    destruct ((c =? DQ) || (c =? SQ)).
    { destruct (tokbuf s) eqn:Eb; [|discriminate].
      destruct (if c =? DQ then match_dq (c :: rest) else match_sq (c :: rest)) as [k|]; [|discriminate].
      intros H; inv H. rewrite flat_push by auto. rewrite make_operand_val, <- app_assoc.
      unfold first_n. now rewrite dropN_firstn. }
    destruct (c =? HASH).
    { destruct (tokbuf s) eqn:Eb; [|discriminate].
      destruct (find _ error_codes) as [e|] eqn:Ef; [|discriminate].
      intros H; inv H. rewrite flat_push by auto. rewrite make_operand_val, <- app_assoc, Nnat.Nat2N.id.
      apply find_some in Ef as [_ Ef]. rewrite <- (prefix_firstn e (c :: rest) Ef) at 1. now rewrite dropN_firstn. }
    destruct (mem c operators) eqn:Eo. { apply operators_flush in Eo. congruence. }
    destruct (c =? LB) eqn:E1.
    { destruct (tokbuf s) eqn:Eb; [|discriminate]. intros H; inv H. apply N.eqb_eq in E1; subst.
      unfold flat; cbn [items tokbuf]. rewrite flat_items_cons, Eb. cbn. now rewrite !app_nil_r, <- app_assoc. }
    destruct (c =? LP) eqn:E2.
    { intros H; inv H. apply N.eqb_eq in E2; subst. unfold flat; cbn [items tokbuf]. rewrite flat_items_cons.
      destruct (tokbuf s) as [|b0 b]; cbn [tval rev]; rewrite ?app_nil_r, <- ?app_assoc; reflexivity. }
    destruct ((c =? RP) || (c =? RB)) eqn:E3.
    { exfalso. apply orb_prop in E3 as [E3|E3]; apply N.eqb_eq in E3; subst; vm_compute in Een; discriminate. }
    destruct (c =? SEMI) eqn:E4. { exfalso. apply N.eqb_eq in E4; subst; vm_compute in Een; discriminate. }
    destruct (c =? COMMA) eqn:E5. { exfalso. apply N.eqb_eq in E5; subst; vm_compute in Een; discriminate. }
    intros H; inv H. unfold flat; cbn [items tokbuf rev]. now rewrite <- !app_assoc.
Qed.

Theorem run_lossless : forall fuel s inp ts, run fuel s inp = Ok ts -> concat (map tval ts) = flat s ++ inp.
Proof.
  induction fuel as [|f IH]; intros s inp ts H.
  - destruct inp; [|discriminate]. cbn in H. inv H. rewrite app_nil_r.
    fold (flat_items (items (save_token s))). rewrite <- (flat_save s). unfold flat. now rewrite tokbuf_save, app_nil_r.
  - destruct inp as [|c rest].
    + cbn in H. inv H. rewrite app_nil_r.
      fold (flat_items (items (save_token s))). rewrite <- (flat_save s). unfold flat. now rewrite tokbuf_save, app_nil_r.
    + cbn [run] in H. destruct (step s (c :: rest)) as [[s' m]| | |] eqn:E; try discriminate.
      rewrite (IH _ _ _ H). now apply step_conserves.
Qed.

Theorem tok_lossless s ts : tokenize s = Ok ts -> concat (map tval ts) = s.
Proof. intros H. apply run_lossless in H. exact H. Qed.
Print Assumptions tok_lossless.

(* ---- totality: the fuel is never exhausted ---- *)
Lemma dq_body_pos fuel s n k : dq_body fuel s n = Some k -> n < k.
Proof. revert s n. induction fuel as [|f IH]; intros s n H; [discriminate|]. cbn in H.
  destruct s as [|c r]; [discriminate|]. destruct (c =? DQ).
  - destruct r as [|c2 r2]; [inv H; lia|]. destruct (c2 =? DQ); [apply IH in H; lia|inv H; lia].
  - apply IH in H. lia. Qed.
Lemma sq_body_pos fuel s n k : sq_body fuel s n = Some k -> n < k.
Proof. revert s n. induction fuel as [|f IH]; intros s n H; [discriminate|]. cbn in H.
  destruct s as [|c r]; [discriminate|]. destruct (c =? SQ).
  - destruct r as [|c2 r2]; [inv H; lia|]. destruct (c2 =? SQ); [|inv H; lia].
    destruct (sq_body f r2 (n+2)) eqn:E; inv H; [apply IH in E; lia|lia].
  - apply IH in H. lia. Qed.
Lemma skip_ws_ge s : forall n s1 n1, skip_ws s n = (s1, n1) -> n <= n1.
Proof. induction s as [|c r IH]; intros n s1 n1 E; cbn in E; [inv E; lia|].
  destruct (is_space c); [apply IH in E; lia|inv E; lia]. Qed.
Lemma sq_cont_ge fuel : forall s n, n <= sq_cont fuel s n.
Proof. induction fuel as [|f IH]; intros s n; cbn [sq_cont]; [lia|].
  destruct (skip_ws s n) as [s1 n1] eqn:E1. apply skip_ws_ge in E1.
  destruct s1 as [|c r]; [lia|]. destruct (c =? COLON); [|lia].
  destruct (skip_ws r (n1+1)) as [s2 n2] eqn:E2. apply skip_ws_ge in E2.
  destruct (match_name s2) as [k|]; [|lia]. specialize (IH (dropN (N.to_nat k) s2) (n2 + k)). lia. Qed.

Lemma step_consumes s inp s' m : step s inp = Ok (s', m) -> 1 <= m.
Proof.
  unfold step. destruct inp as [|c rest]; [discriminate|].
  destruct (mem c [PLUS; MINUS] && _ && _); [intros H; inv H; lia|].
  set (s1 := if mem c enders then save_token s else s). clearbody s1.
  destruct ((c =? DQ) || (c =? SQ)).
  { destruct (tokbuf s1); [|discriminate]. destruct (c =? DQ) eqn:E.
    - destruct (match_dq (c :: rest)) as [k|] eqn:Ek; [|discriminate]. intros H; inv H.
      unfold match_dq in Ek. rewrite E in Ek. apply dq_body_pos in Ek. lia.
    - destruct (match_sq (c :: rest)) as [k|] eqn:Ek; [|discriminate]. intros H; injection H as _ <-.
      unfold match_sq in Ek. destruct (match_name (c :: rest)) as [k0|] eqn:E0; [|discriminate]. injection Ek as <-.
      unfold match_name in E0. destruct (c =? SQ); [|discriminate]. apply sq_body_pos in E0.
      apply N.le_trans with k0; [lia|]. change (k0 <= sq_cont (S (length rest)) (dropN (N.to_nat k0) (c :: rest)) k0). apply sq_cont_ge. }
  destruct (c =? HASH).
  { destruct (tokbuf s1); [|discriminate]. destruct (find _ error_codes) as [e|] eqn:Ef; [|discriminate].
    intros H; inv H. apply find_some in Ef as [Hin _].
    assert (F : forallb (fun e : str => Nat.leb 1 (length e)) error_codes = true) by (vm_compute; reflexivity).
    rewrite forallb_forall in F. specialize (F _ Hin). apply Nat.leb_le in F. lia. }
  destruct (mem c operators).
  { destruct rest as [|c2 r2]; [|destruct (_ || _ || _)]; intros H; inv H; lia. }
  destruct (c =? LB). { destruct (tokbuf s1); [|discriminate]. intros H; inv H; lia. }
  destruct (c =? LP). { intros H; inv H; lia. }
  destruct ((c =? RP) || (c =? RB)).
  { destruct (stack s1); [discriminate|]. destruct (_ =? c); [|discriminate]. intros H; inv H; lia. }
  destruct (c =? SEMI). { intros H; inv H; lia. }
  destruct (c =? COMMA). { intros H; inv H; lia. }
  intros H; inv H; lia.
Qed.

Lemma length_dropN n (s:str) : length (dropN n s) = (length s - n)%nat.
Proof. revert s; induction n as [|n IH]; intros [|c r]; cbn; auto. Qed.

Theorem run_fuel_enough : forall fuel s inp, (length inp < fuel)%nat -> run fuel s inp <> OutOfFuel.
Proof.
  induction fuel as [|f IH]; intros s inp Hl; [lia|].
  destruct inp as [|c rest]; [cbn; discriminate|].
  cbn [run]. destruct (step s (c :: rest)) as [[s' m]| | |] eqn:E; try discriminate.
  - apply IH. apply step_consumes in E. rewrite length_dropN. cbn [length] in *.
    assert (1 <= N.to_nat m)%nat by lia. lia.
  - (* step never reports OutOfFuel itself *)
    exfalso. revert E. unfold step.
    repeat match goal with
      | |- context [if ?b then _ else _] => destruct b
      | |- context [match ?x with _ => _ end] => destruct x
      end; discriminate.
Qed.

Theorem tok_never_out_of_fuel s : tokenize s <> OutOfFuel.
Proof. apply run_fuel_enough. lia. Qed.

(* the pinned tokenizer crashes on an unmatched closer: faithful model, refuted totality *)
Example tok_total_refuted : tokenize [RP] = Crash.
Proof. vm_compute. reflexivity. Qed.
Print Assumptions tok_never_out_of_fuel.
