open Tok
let rec bits k n = if k = 0 then [] else ((n land 1) = 1) :: bits (k-1) (n lsr 1)
let n_of_int i = n_of_bits (bits 21 i)
let rec int_of_pos = function XH -> 1 | XO p -> 2 * int_of_pos p | XI p -> 2 * int_of_pos p + 1
let int_of_n = function N0 -> 0 | Npos p -> int_of_pos p
let ty_s = function OPERAND->"OPERAND"|FUNC->"FUNC"|ARRAY->"ARRAY"|PAREN->"PAREN"|SEP->"SEP"|OP_PRE->"OPERATOR-PREFIX"|OP_IN->"OPERATOR-INFIX"|OP_POST->"OPERATOR-POSTFIX"
let sub_s = function S_TEXT->"TEXT"|S_ERROR->"ERROR"|S_LOGICAL->"LOGICAL"|S_OTHER->"OTHER"|S_OPEN->"OPEN"|S_CLOSE->"CLOSE"|S_ARG->"ARG"|S_ROW->"ROW"|S_NONE->""
(* input: space-separated decimal code points per line *)
let () =
  try while true do
    let l = input_line stdin in
    let cs = if l = "" then [] else List.map (fun x -> n_of_int (int_of_string x)) (String.split_on_char ' ' l) in
    (match tokenize cs with
     | Ok ts -> print_string ("OK " ^ String.concat "|" (List.map (fun t ->
          String.concat "." (List.map (fun c -> string_of_int (int_of_n c)) t.tval) ^ ":" ^ ty_s t.tty ^ ":" ^ sub_s t.tsub) ts))
     | TokErr -> print_string "TOKERR" | Crash -> print_string "CRASH" | OutOfFuel -> print_string "FUEL");
    print_newline ()
  done with End_of_file -> ()
