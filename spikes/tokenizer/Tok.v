From Coq Require Import List NArith Bool Lia.
Import ListNotations.
Open Scope N_scope.

Definition chr := N.
Definition str := list chr.

Inductive ty := OPERAND | FUNC | ARRAY | PAREN | SEP | OP_PRE | OP_IN | OP_POST.
Inductive sub := S_TEXT | S_ERROR | S_LOGICAL | S_OTHER (* NUMBER or RANGE: float() oracle *) | S_OPEN | S_CLOSE | S_ARG | S_ROW | S_NONE.
Record token := { tval : str; tty : ty; tsub : sub }.

Inductive res (A:Type) := Ok (a:A) | TokErr | Crash | OutOfFuel.
Arguments Ok {A}. Arguments TokErr {A}. Arguments Crash {A}. Arguments OutOfFuel {A}.

Definition ty_eqb (a b:ty) : bool :=
  match a, b with OPERAND,OPERAND|FUNC,FUNC|ARRAY,ARRAY|PAREN,PAREN|SEP,SEP|OP_PRE,OP_PRE|OP_IN,OP_IN|OP_POST,OP_POST => true | _,_ => false end.

Fixpoint mem (c:chr) (l:list chr) : bool := match l with [] => false | x::r => (c =? x) || mem c r end.
Fixpoint str_eqb (a b:str) : bool := match a, b with [],[] => true | x::a', y::b' => (x =? y) && str_eqb a' b' | _,_ => false end.
Fixpoint prefix (p s:str) : bool := match p, s with [], _ => true | x::p', y::s' => (x =? y) && prefix p' s' | _, _ => false end.

(* code points *)
Definition DQ := 34. Definition SQ := 39. Definition HASH := 35. Definition LP := 40. Definition RP := 41.
Definition LB := 123. Definition RB := 125. Definition COMMA := 44. Definition SEMI := 59. Definition COLON := 58.
Definition PLUS := 43. Definition MINUS := 45. Definition PCT := 37.
Definition enders : list chr := [44;59;125;41;43;45;42;47;94;38;61;62;60;37;215;247;8805;8804;8800].
Definition operators : list chr := [43;45;42;47;94;38;61;62;60;37;215;247;8805;8804;8800].
Definition infix_only : list chr := [42;47;94;38;61;62;60;215;247;8805;8804;8800].
Definition is_space (c:chr) : bool :=
  mem c [32;9;10;11;12;13;28;29;30;31;133;160;5760;8232;8233;8239;8287;12288] || ((8192 <=? c) && (c <=? 8202)).
Definition is_digit (c:chr) := (48 <=? c) && (c <=? 57).

(* "..." with doubled quotes, closing quote not followed by a quote; returns match length *)
Fixpoint dq_body (fuel:nat) (s:str) (n:N) : option N :=
  match fuel with O => None | S f =>
  match s with
  | [] => None
  | c :: r => if c =? DQ then
                match r with c2 :: r2 => if c2 =? DQ then dq_body f r2 (n+2) else Some (n+1) | [] => Some (n+1) end
              else dq_body f r (n+1)
  end end.
Definition match_dq (s:str) : option N :=
  match s with c :: r => if c =? DQ then dq_body (S (length r)) r 1 else None | [] => None end.

(* quoted name body after the opening quote: greedy over '' pairs with backtracking *)
Fixpoint sq_body (fuel:nat) (s:str) (n:N) : option N :=
  match fuel with O => None | S f =>
  match s with
  | [] => None
  | c :: r => if c =? SQ then
                match r with
                | c2 :: r2 => if c2 =? SQ then
                                match sq_body f r2 (n+2) with Some m => Some m | None => Some (n+1) end
                              else Some (n+1)
                | [] => Some (n+1) end
              else sq_body f r (n+1)
  end end.
Definition match_name (s:str) : option N :=
  match s with c :: r => if c =? SQ then sq_body (S (length r)) r 1 else None | [] => None end.
Fixpoint skip_ws (s:str) (n:N) : str * N := match s with c :: r => if is_space c then skip_ws r (n+1) else (s, n) | [] => (s, n) end.
Fixpoint dropN (n:nat) (s:str) : str := match n, s with O, _ => s | S k, _ :: r => dropN k r | S _, [] => [] end.
(* continuation (\s*:\s*'name')* *)
Fixpoint sq_cont (fuel:nat) (s:str) (n:N) : N :=
  match fuel with O => n | S f =>
    let '(s1, n1) := skip_ws s n in
    match s1 with
    | c :: r => if c =? COLON then
                  let '(s2, n2) := skip_ws r (n1+1) in
                  match match_name s2 with
                  | Some m => sq_cont f (dropN (N.to_nat m) s2) (n2 + m)
                  | None => n end
                else n
    | [] => n end
  end.
Definition match_sq (s:str) : option N :=
  match match_name s with
  | Some m => Some (sq_cont (length s) (dropN (N.to_nat m) s) m)
  | None => None end.

Definition error_codes : list str :=
  [ [35;78;85;76;76;33]; [35;68;73;86;47;48;33]; [35;86;65;76;85;69;33]; [35;82;69;70;33]; [35;78;65;77;69;63]; [35;78;85;77;33]; [35;78;47;65] ].

Definition s_TRUE : str := [84;82;85;69]. Definition s_FALSE : str := [70;65;76;83;69].
Definition make_operand (v:str) : token :=
  match v with
  | c :: _ => if c =? DQ then {| tval := v; tty := OPERAND; tsub := S_TEXT |}
              else if c =? HASH then {| tval := v; tty := OPERAND; tsub := S_ERROR |}
              else if str_eqb v s_TRUE || str_eqb v s_FALSE then {| tval := v; tty := OPERAND; tsub := S_LOGICAL |}
              else {| tval := v; tty := OPERAND; tsub := S_OTHER |}
  | [] => {| tval := v; tty := OPERAND; tsub := S_OTHER |}
  end.

(* SN_RE  ^[1-9](\.[0-9]+)?E$  on the pending token *)
Fixpoint digits_then_E (s:str) (seen:bool) : bool :=
  match s with
  | [c] => seen && (c =? 69)
  | c :: r => is_digit c && digits_then_E r true
  | [] => false end.
Definition sn_match0 (t:str) : bool :=
  match t with
  | c :: r => (49 <=? c) && (c <=? 57) &&
      match r with
      | [e] => e =? 69
      | d :: r2 => (d =? 46) && digits_then_E r2 false
      | [] => false end
  | [] => false end.

Definition sn_match (t:str) : bool :=
  sn_match0 t || (match rev t with c :: r => (c =? 10) && sn_match0 (rev r) | [] => false end).

Record st := { items : list token (* reversed *); stack : list token; tokbuf : str (* reversed *) }.

Definition save_token (s:st) : st :=
  match tokbuf s with [] => s | _ => {| items := make_operand (rev (tokbuf s)) :: items s; stack := stack s; tokbuf := [] |} end.
Definition push_item (s:st) (t:token) : st := {| items := t :: items s; stack := stack s; tokbuf := tokbuf s |}.

Definition first_n (n:nat) (s:str) := firstn n s.

(* one dispatch step on non-empty input; returns new state and number of chars consumed *)
Definition step (s:st) (inp:str) : res (st * N) :=
  match inp with [] => Crash | c :: rest =>
  if (mem c [PLUS;MINUS]) && (match tokbuf s with [] => false | _ => true end) && sn_match (rev (tokbuf s))
  then Ok ({| items := items s; stack := stack s; tokbuf := c :: tokbuf s |}, 1)
  else
  let s := if mem c enders then save_token s else s in
  if (c =? DQ) || (c =? SQ) then
    match tokbuf s with _ :: _ => TokErr | [] =>
      match (if c =? DQ then match_dq inp else match_sq inp) with
      | None => TokErr
      | Some m => Ok (push_item s (make_operand (first_n (N.to_nat m) inp)), m) end end
  else if c =? HASH then
    match tokbuf s with _ :: _ => TokErr | [] =>
      match find (fun e => prefix e inp) error_codes with
      | Some e => Ok (push_item s (make_operand e), N.of_nat (length e))
      | None => TokErr end end
  else if mem c operators then
    match rest with
    | c2 :: _ =>
      if ((c =? 62) && (c2 =? 61)) || ((c =? 60) && (c2 =? 61)) || ((c =? 60) && (c2 =? 62))
      then Ok (push_item s {| tval := [c;c2]; tty := OP_IN; tsub := S_NONE |}, 2)
      else Ok (push_item s {| tval := [c]; tty :=
             if c =? PCT then OP_POST else if mem c infix_only then OP_IN else
             match items s with [] => OP_PRE | p :: _ =>
               if (match tsub p with S_CLOSE => true | _ => false end) || ty_eqb (tty p) OP_POST || ty_eqb (tty p) OPERAND then OP_IN else OP_PRE end;
             tsub := S_NONE |}, 1)
    | [] => Ok (push_item s {| tval := [c]; tty :=
             if c =? PCT then OP_POST else if mem c infix_only then OP_IN else
             match items s with [] => OP_PRE | p :: _ =>
               if (match tsub p with S_CLOSE => true | _ => false end) || ty_eqb (tty p) OP_POST || ty_eqb (tty p) OPERAND then OP_IN else OP_PRE end;
             tsub := S_NONE |}, 1)
    end
  else if c =? LB then
    match tokbuf s with _ :: _ => TokErr | [] =>
      let t := {| tval := [LB]; tty := ARRAY; tsub := S_OPEN |} in
      Ok ({| items := t :: items s; stack := t :: stack s; tokbuf := [] |}, 1) end
  else if c =? LP then
    let t := match tokbuf s with
             | [] => {| tval := [LP]; tty := PAREN; tsub := S_OPEN |}
             | b => {| tval := rev (LP :: b); tty := FUNC; tsub := S_OPEN |} end in
    Ok ({| items := t :: items s; stack := t :: stack s; tokbuf := [] |}, 1)
  else if (c =? RP) || (c =? RB) then
    match stack s with
    | [] => Crash            (* list.pop() on an empty list: IndexError *)
    | o :: stk =>
      let cl := match tty o with ARRAY => RB | _ => RP end in
      if cl =? c then
        Ok ({| items := {| tval := [cl]; tty := tty o; tsub := S_CLOSE |} :: items s; stack := stk; tokbuf := tokbuf s |}, 1)
      else TokErr end
  else if c =? SEMI then Ok (push_item s {| tval := [SEMI]; tty := SEP; tsub := S_ROW |}, 1)
  else if c =? COMMA then
    let t := match stack s with
             | [] => {| tval := [COMMA]; tty := OP_IN; tsub := S_NONE |}
             | top :: _ => if ty_eqb (tty top) PAREN then {| tval := [COMMA]; tty := OP_IN; tsub := S_NONE |}
                           else {| tval := [COMMA]; tty := SEP; tsub := S_ARG |} end in
    Ok (push_item s t, 1)
  else Ok ({| items := items s; stack := stack s; tokbuf := c :: tokbuf s |}, 1)
  end.

Fixpoint run (fuel:nat) (s:st) (inp:str) : res (list token) :=
  match inp with
  | [] => Ok (rev (items (save_token s)))
  | _ => match fuel with O => OutOfFuel | S f =>
      match step s inp with
      | Ok (s', m) => run f s' (dropN (N.to_nat m) inp)
      | TokErr => TokErr | Crash => Crash | OutOfFuel => OutOfFuel end end
  end.

Definition tokenize (inp:str) : res (list token) :=
  run (S (length inp)) {| items := []; stack := []; tokbuf := [] |} inp.

Fixpoint N_of_bits (bs:list bool) : N := match bs with [] => 0 | b::r => (if b then 1 else 0) + 2 * N_of_bits r end.
Require Import ExtrOcamlBasic.
Extraction "tok.ml" tokenize N_of_bits.
