From Coq Require Import List Arith Lia Bool.
Import ListNotations.

(* token level: atoms are opaque ids; operator ids are nats; [minus] is the id of '-' *)
Inductive tok := TAtom (a:nat) | TOp (o:nat) | TPct | TFun (f:nat) | TL | TR | TComma | TSemi | TLB | TRB.

Inductive expr :=
| EAtom (a:nat)
| EBin (o:nat) (l r:expr)
| ENeg (e:expr)
| EPct (e:expr)
| EParen (es:list expr)                 (* LIST_NODE: "(a,b)"; nonempty *)
| EFun (f:nat) (args:list (option expr))(* "F(a,,b)"; None = EMPTY_ARGUMENT *)
| EArr (rows:list (list expr)).         (* "{a,b;c,d}" *)

Section G.
Variable prec : nat -> nat.
Variable minus : nat.

Definition sep_by {A} (sep:tok) (f:A -> list tok) : list A -> list tok :=
  fix go (l:list A) : list tok :=
  match l with [] => [] | x :: r => match r with [] => f x | _ => f x ++ sep :: go r end end.

Fixpoint show (e:expr) : list tok :=
  match e with
  | EAtom a => [TAtom a]
  | EBin o l r => show l ++ TOp o :: show r
  | ENeg e => TOp minus :: show e
  | EPct e => show e ++ [TPct]
  | EParen es => TL :: sep_by TComma show es ++ [TR]
  | EFun f args => TFun f :: sep_by TComma (fun a => match a with Some e => show e | None => [] end) args ++ [TR]
  | EArr rows => TLB :: sep_by TSemi (fun row => sep_by TComma show row) rows ++ [TRB]
  end.

Fixpoint size (e:expr) : nat :=
  match e with
  | EAtom _ => 1
  | EBin _ l r => 1 + size l + size r
  | ENeg e | EPct e => 1 + size e
  | EParen es => 1 + fold_right (fun e n => size e + n) 0 es
  | EFun _ args => 1 + fold_right (fun a n => match a with Some e => size e | None => 1 end + n) 0 args
  | EArr rows => 1 + fold_right (fun row n => 1 + fold_right (fun e m => size e + m) 0 row + n) 0 rows
  end.

(* parser: one fuelled mutual block: parse_un (unary level), parse_ex, loop, parse_items, parse_args, parse_rows *)
Fixpoint pct_loop (e:expr) (ts:list tok) : expr * list tok :=
  match ts with TPct :: r => pct_loop (EPct e) r | _ => (e, ts) end.

Fixpoint parse_ex (fuel:nat) (minp:nat) (ts:list tok) {struct fuel} : option (expr * list tok) :=
  match fuel with 0 => None | S f =>
    match parse_un f ts with
    | Some (lhs, r) => loop f minp lhs r
    | None => None end end
with parse_un (fuel:nat) (ts:list tok) {struct fuel} : option (expr * list tok) :=
  match fuel with 0 => None | S f =>
    match ts with
    | TOp o :: r => if o =? minus then
                      match parse_un f r with Some (e, r') => Some (ENeg e, r') | None => None end
                    else None
    | TAtom a :: r => Some (pct_loop (EAtom a) r)
    | TL :: r => match parse_items f r with
                 | Some (es, TR :: r') => Some (pct_loop (EParen es) r')
                 | _ => None end
    | TFun g :: TR :: r => Some (pct_loop (EFun g []) r)
    | TFun g :: r => match parse_args f r with
                     | Some (args, r') => Some (pct_loop (EFun g args) r')
                     | None => None end
    | TLB :: r => match parse_rows f r with
                  | Some (rows, r') => Some (pct_loop (EArr rows) r')
                  | None => None end
    | _ => None
    end end
with loop (fuel:nat) (minp:nat) (lhs:expr) (ts:list tok) {struct fuel} : option (expr * list tok) :=
  match fuel with 0 => None | S f =>
    match ts with
    | TOp o :: r =>
        if minp <=? prec o then
          match parse_ex f (S (prec o)) r with
          | Some (rhs, r') => loop f minp (EBin o lhs rhs) r'
          | None => None end
        else Some (lhs, ts)
    | _ => Some (lhs, ts)
    end end
with parse_items (fuel:nat) (ts:list tok) {struct fuel} : option (list expr * list tok) :=
  match fuel with 0 => None | S f =>
    match parse_ex f 0 ts with
    | Some (e, TComma :: r) =>
        match parse_items f r with Some (es, r') => Some (e :: es, r') | None => None end
    | Some (e, r) => Some ([e], r)
    | None => None end end
with parse_args (fuel:nat) (ts:list tok) {struct fuel} : option (list (option expr) * list tok) :=
  
  match fuel with 0 => None | S f =>
    match ts with
    | TR :: r => Some ([None], r)
    | TComma :: r => match parse_args f r with Some (as_, r') => Some (None :: as_, r') | None => None end
    | _ => match parse_ex f 0 ts with
           | Some (e, TR :: r) => Some ([Some e], r)
           | Some (e, TComma :: r) => match parse_args f r with Some (as_, r') => Some (Some e :: as_, r') | None => None end
           | _ => None end
    end end
with parse_rows (fuel:nat) (ts:list tok) {struct fuel} : option (list (list expr) * list tok) :=
  match fuel with 0 => None | S f =>
    match parse_items f ts with
    | Some (row, TRB :: r) => Some ([row], r)
    | Some (row, TSemi :: r) => match parse_rows f r with Some (rows, r') => Some (row :: rows, r') | None => None end
    | _ => None end end.

Definition parse (ts:list tok) : option expr :=
  match parse_ex (2 * length ts + 2) 0 ts with Some (e, []) => Some e | _ => None end.
End G.
