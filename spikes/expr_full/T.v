Require Import List Arith. Import ListNotations. Require Import Expr.
Definition prec (o:nat) := match o with 0 => 3 | 1 => 3 | 2 => 4 | 3 => 5 | 4 => 2 | _ => 1 end. (* 0 '-', 1 '+', 2 '*', 3 '^', 4 '&' *)
Definition rt (e:expr) := parse prec 0 (show 0 e).
Definition ex1 := EBin 1 (ENeg (EPct (EAtom 7))) (EBin 2 (EAtom 1) (EParen [EBin 0 (EAtom 2) (EAtom 3)])).
Definition ex2 := EFun 9 [Some (EAtom 1); None; Some (EArr [[EAtom 1; EAtom 2];[ENeg (EAtom 3); EAtom 4]])].
Definition ex3 := EBin 0 (EBin 0 (EAtom 1) (EAtom 2)) (EFun 5 []).
Definition ex4 := EFun 5 [None; None].
Eval vm_compute in (map (fun e => match rt e with Some e' => true | None => false end) [ex1;ex2;ex3;ex4], rt ex3).
