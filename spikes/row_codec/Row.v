From Coq Require Import List Arith ZArith Lia Bool.
Import ListNotations.

Definition bytes := list nat.
Definition cells := list (option bytes).

(* recalculate_row_info: offsets in bytes (-1 = absent), storage = concatenation *)
Fixpoint offsets (cur:nat) (cs:cells) : list Z :=
  match cs with
  | [] => []
  | Some b :: r => Z.of_nat cur :: offsets (cur + length b) r
  | None :: r => (-1)%Z :: offsets cur r end.
Fixpoint flat (cs:cells) : bytes := match cs with [] => [] | Some b :: r => b ++ flat r | None :: r => flat r end.

(* get_storage_buffers_for_row: end = next non-negative offset, else len(storage) *)
Fixpoint next_nonneg (offs:list Z) : option Z :=
  match offs with [] => None | o :: r => if (0 <=? o)%Z then Some o else next_nonneg r end.
Definition slice (s:bytes) (a b:nat) : bytes := firstn (b - a) (skipn a s).
Fixpoint split (storage:bytes) (offs:list Z) : cells :=
  match offs with
  | [] => []
  | o :: r =>
    (if (o <? 0)%Z then None
     else let e := match next_nonneg r with Some e => Z.to_nat e | None => length storage end in
          Some (slice storage (Z.to_nat o) e)) :: split storage r
  end.

Lemma next_nonneg_offsets cur cs :
  next_nonneg (offsets cur cs) = if existsb (fun c => match c with Some _ => true | None => false end) cs then Some (Z.of_nat cur) else None.
Proof.
  revert cur. induction cs as [|[b|] r IH]; intros cur; cbn; auto.
  destruct (Z.leb_spec 0 (Z.of_nat cur)); [reflexivity|lia].
Qed.

Lemma flat_nil cs : existsb (fun c => match c with Some _ => true | None => false end) cs = false -> flat cs = [].
Proof. induction cs as [|[b|] r IH]; cbn; auto; discriminate. Qed.

Theorem row_roundtrip : forall cs pre,
  split (pre ++ flat cs) (offsets (length pre) cs) = cs.
Proof.
  induction cs as [|[b|] r IH]; intros pre; cbn [offsets flat split]; auto.
  - destruct (Z.ltb_spec (Z.of_nat (length pre)) 0); [lia|].
    rewrite next_nonneg_offsets, Nat2Z.id.
    assert (Hs : slice (pre ++ b ++ flat r) (length pre)
                   (match (if existsb (fun c => match c with Some _ => true | None => false end) r
                           then Some (Z.of_nat (length pre + length b)) else None)
                    with Some e => Z.to_nat e | None => length (pre ++ b ++ flat r) end) = b).
    { unfold slice. rewrite skipn_app, skipn_all, Nat.sub_diag. cbn [skipn app].
      destruct (existsb _ r) eqn:E.
      - rewrite Nat2Z.id. replace (length pre + length b - length pre) with (length b) by lia.
        rewrite firstn_app, firstn_all, Nat.sub_diag. cbn. apply app_nil_r.
      - rewrite (flat_nil r E), app_nil_r, app_length.
        replace (length pre + length b - length pre) with (length b) by lia. apply firstn_all. }
    rewrite Hs. f_equal.
    specialize (IH (pre ++ b)). rewrite app_length, <- app_assoc in IH. exact IH.
  - f_equal. apply IH.
Qed.
Print Assumptions row_roundtrip.
