import warnings, time, glob, os, sys
warnings.simplefilter("ignore")
from numbers_parser import Document
tot=0; n=0; res=[]
for f in sorted(glob.glob("/repo/tests/data/*.numbers")):
    t=time.time()
    try:
        d=Document(f); cells=sum(t_.num_rows*t_.num_cols for s in d.sheets for t_ in s.tables)
        st="ok"
    except Exception as e:
        st=type(e).__name__; cells=0
    dt=time.time()-t; tot+=dt; n+=1
    res.append((dt,os.path.basename(f),st,cells, os.path.isdir(f)))
for r in sorted(res, reverse=True)[:12]: print(r)
print(n, "files", round(tot,1),"s")
print([r for r in res if r[2]!="ok"])
