import warnings, datetime as dt, tempfile, os
warnings.simplefilter("ignore")
from numbers_parser import Document
from numbers_parser.constants import FractionAccuracy
doc=Document(); t=doc.sheets[0].tables[0]
vals=[-1.5,1.99,0.99,-0.25,2.5,1234.5678,-1234.5678,999.995,0.005,-0.004]
for i,v in enumerate(vals):
    t.write(i,0,v); t.set_cell_formatting(i,0,"fraction",fraction_accuracy=FractionAccuracy.HALVES)
    t.write(i,1,v); t.set_cell_formatting(i,1,"number",decimal_places=2,show_thousands_separator=True)
    t.write(i,2,v); t.set_cell_formatting(i,2,"percentage",decimal_places=1)
    t.write(i,3,v); t.set_cell_formatting(i,3,"scientific",decimal_places=2)
    t.write(i,4,v); t.set_cell_formatting(i,4,"base",base=2,base_use_minus_sign=False)
    t.write(i,5,v); t.set_cell_formatting(i,5,"currency",currency_code="USD",use_accounting_style=True)
    t.write(i,6,v); t.set_cell_formatting(i,6,"fraction",fraction_accuracy=FractionAccuracy.TWO)
for i,v in enumerate(vals):
    print(v, [t.cell(i,c).formatted_value for c in range(7)])
t.write(0,7,-(2**49+1)); t.set_cell_formatting(0,7,"base",base=2,base_use_minus_sign=False); print(t.cell(0,7).formatted_value, len(t.cell(0,7).formatted_value))
# dates
d=dt.datetime(2023,1,1,10,0,5,123456)
for f in ["k","kk","K","KK","h","hh","H","HH","a","y","yy","yyyy","D","DD","DDD","W","ww","F","S","SS","SSS","G","M","MM","MMM","d","dd","EEE","m","mm","s","ss","'lit' yyyy","yyyy-MM-dd'T'HH:mm","h 'o''clock'"]:
    try:
        t.write(0,0,d); t.set_cell_formatting(0,0,"datetime",date_time_format=f); print(repr(f),"->",repr(t.cell(0,0).formatted_value))
    except Exception as e: print(repr(f),"EXC",type(e).__name__,e)
for h in (0,10,20,23):
    t.write(0,0,dt.datetime(2023,1,1,h,0,0)); t.set_cell_formatting(0,0,"datetime",date_time_format="k kk K KK h hh a"); print(h, t.cell(0,0).formatted_value)
