import warnings, sys
warnings.simplefilter("ignore")
from numbers_parser import Document
from numbers_parser.cell import _pack_decimal128, _unpack_decimal128
bad=[]
for v in [12,50,52,0.12,846400000000.0,1,2,3,100,0.1,1.5,123.45]:
    r=_unpack_decimal128(_pack_decimal128(v))
    if r!=v: bad.append((v,r))
print("d128 roundtrip failures:", bad)
n=0
for i in range(1,10000):
    if _unpack_decimal128(_pack_decimal128(i))!=i: n+=1
print("ints 1..9999 failing:", n)
# C19
doc=Document()
try:
    print("sheets[-3] on 1-item:", doc.sheets[-3].name)
except Exception as e: print("exc", type(e).__name__, e)
doc.add_sheet("S2")
try:
    print("sheets[-3] on 2-item:", doc.sheets[-3].name)
except Exception as e: print("exc", type(e).__name__, e)
# C18
from numbers_parser.tokenizer import Tokenizer, TokenizerError
for s in [")", "SUM(1))", "}", "a'b'", "1+'x", '"abc', "#FOO", "A1:B2 "]:
    try:
        t=Tokenizer(s); print(repr(s), [x.value for x in t.items])
    except TokenizerError as e: print(repr(s), "TokenizerError")
    except Exception as e: print(repr(s), "ESCAPE", type(e).__name__, e)
# C12
t=doc.sheets[0].tables[0]
for r in range(5):
    for c in range(5): t.write(r,c,f"{r},{c}")
t.merge_cells("B2:C3")
print("merge: ", [(r,c,type(t.cell(r,c)).__name__, t.cell(r,c).is_merged, t.cell(r,c).size) for r in (1,2) for c in (1,2)], t.merge_ranges)
# C11
try:
    t.write(-1,0,"neg"); print("write(-1,0) accepted; last row val", t.cell(t.num_rows-1,0).value)
except Exception as e: print("write -1:", type(e).__name__)
try:
    t.write("A0","neg"); print("write(A0) accepted")
except Exception as e: print("write A0:", type(e).__name__)
print("iter_rows max_row=0 ->", len(list(t.iter_rows(max_row=0))), "rows")
try: print("iter_rows max_row=num_rows ->", len(list(t.iter_rows(max_row=t.num_rows))))
except Exception as e: print("iter_rows max_row=num_rows:", type(e).__name__, e)
try: print("iter_rows max_col=num_cols ->", len(list(t.iter_rows(max_col=t.num_cols))))
except Exception as e: print("iter_rows max_col=num_cols:", type(e).__name__, e)
