import warnings, glob, traceback
warnings.simplefilter("ignore")
from numbers_parser import Document
for f in sorted(glob.glob("/repo/tests/data/*.numbers")):
    try: d=Document(f)
    except Exception: continue
    for s in d.sheets:
        for t in s.tables:
            for row in t.rows():
                for c in row:
                    if c.is_formula:
                        try: c.formula
                        except Exception as e:
                            print(f.split("/")[-1], s.name, t.name, c.row, c.col, type(e).__name__, e, traceback.extract_tb(e.__traceback__)[-1][:3]); break
