import warnings
warnings.simplefilter("ignore")
from numbers_parser import Document
from numbers_parser.generated import TSCEArchives_pb2 as T
from numbers_parser.numbers_uuid import NumbersUUID
doc=Document(sheet_name="S1",table_name="T1",num_rows=4,num_cols=4)
doc.sheets[0].add_table("T2",num_rows=4,num_cols=4)
doc.add_sheet("S2","T1",num_rows=4,num_cols=4)
doc.sheets[1].add_table("T3",num_rows=4,num_cols=4)
m=doc._model
tabs=[(s.name,t.name,t._table_id) for s in doc.sheets for t in s.tables]
def cellnode(row,col,ra,ca,target):
    n=T.ASTNodeArrayArchive.ASTNodeArchive(AST_node_type=T.ASTNodeArrayArchive.CELL_REFERENCE_NODE)
    n.AST_row.row=row; n.AST_row.absolute=ra; n.AST_column.column=col; n.AST_column.absolute=ca
    if target is not None:
        n.AST_cross_table_reference_extra_info.table_id.CopyFrom(NumbersUUID(m.table_base_id(target)).protobuf4)
    return n
for hs,ht,hid in tabs:
    out=[]
    for ts,tt,tid in tabs:
        out.append(f"{ts}/{tt}->"+str(m.node_to_ref(hid,1,1,cellnode(1,0,False,True,tid))))
    print(f"host {hs}/{ht}:", out)
# header labels
t=doc.sheets[0].tables[1]
for c,name in enumerate(["x","alpha","beta","alpha"]): t.write(0,c,name)
t3=doc.sheets[1].tables[1]
for c,name in enumerate(["x","beta","gamma","a+b"]): t3.write(0,c,name)
def colnode(col,target):
    n=T.ASTNodeArrayArchive.ASTNodeArchive(AST_node_type=T.ASTNodeArrayArchive.COLON_TRACT_NODE)
    n.AST_colon_tract.relative_column.add(range_begin=col); n.AST_colon_tract.absolute_row.add(range_begin=0x7fffffff)
    n.AST_colon_tract.preserve_rectangular=True
    n.AST_sticky_bits.begin_row_is_absolute=False
    if target is not None:
        n.AST_cross_table_reference_extra_info.table_id.CopyFrom(NumbersUUID(m.table_base_id(target)).protobuf4)
    return n
host=tabs[0][2]
for (ts,tt,tid) in (tabs[1],tabs[3]):
    print(ts,tt,[str(m.node_to_ref(host,1,0,colnode(c,tid))) for c in range(4)])
