import warnings, os, tempfile, shutil
warnings.simplefilter("ignore")
from numbers_parser import Document
d=tempfile.mkdtemp(dir="/tmp/scratch")
# C16 heights
src="/repo/tests/data/issue-69b.numbers"
doc=Document(src); t=doc.sheets[0].tables[0]
p=os.path.join(d,"a.numbers"); doc.save(p)
a=Document(src).sheets[0].tables[0]; b=Document(p).sheets[0].tables[0]
print("heights before", [a.row_height(r) for r in range(min(6,a.num_rows))], "after untouched resave", [b.row_height(r) for r in range(min(6,b.num_rows))])
# widths drift with borders
from numbers_parser import Border, RGB
doc=Document(); t=doc.sheets[0].tables[0]
t.set_cell_border(1,1,["left","right"],Border(8.0,RGB(0,0,0),"solid"),3)
w=[]
cur=doc
for i in range(3):
    w.append(cur.sheets[0].tables[0].col_width(1)); q=os.path.join(d,f"w{i}.numbers"); cur.save(q); cur=Document(q)
w.append(cur.sheets[0].tables[0].col_width(1)); print("col width over cycles", w)
# C06 row mapping
doc=Document("/repo/tests/data/issue-66-collab.numbers"); t=doc.sheets[0].tables[0]
m=doc._model; tid=t._table_id
hdrs=[h.index for b_ in m.objects[tid].base_data_store.rowHeaders.buckets for h in m.objects[b_.identifier].headers]
tiles=m.table_tiles(tid); ri=[(ti,r.tile_row_index) for ti,tl in enumerate(tiles) for r in tl.rowInfos]
print("header idx", hdrs); print("rowinfo idx", ri, "num_rows", t.num_rows)
shutil.rmtree(d)
