import warnings, random, re, collections
from decimal import Decimal, ROUND_HALF_UP, ROUND_HALF_EVEN, ROUND_FLOOR
warnings.simplefilter("ignore")
from numbers_parser import Document, NegativeNumberStyle
from numbers_parser.constants import FractionAccuracy
doc=Document(); t=doc.sheets[0].tables[0]
rnd=random.Random(5)
def vals():
    out=[0.0,0.5,-0.5,1.5,2.5,0.005,0.015,0.025,-0.004,0.004,999.995,-999.995,1e-7,123456789012345.0,0.1,0.7,1e14,99999.5,-1.5,-0.25]
    for _ in range(300):
        d=rnd.randint(1,15); m=rnd.randint(1,10**d-1); e=rnd.randint(-d-3,3)
        v=float(Decimal(m).scaleb(e)); 
        if abs(v)<1e15: out.append(v if rnd.random()<0.6 else -v)
    return out
fails=collections.Counter(); ex={}
def rec(cls,v,s,why):
    fails[cls]+=1; ex.setdefault(cls,(v,s,why))
def near(a,b,places):
    # a == value rounded at places, either tie direction
    q=Decimal(1).scaleb(-places)
    return a in (b.quantize(q,ROUND_HALF_UP), b.quantize(q,ROUND_HALF_EVEN))
n=0
for v in vals():
    dv=Decimal(repr(v))
    for places in (0,1,2,5,10):
      for sep in (False,True):
        for neg in (0,1,2,3):
            t.write(0,0,v); t.set_cell_formatting(0,0,"number",decimal_places=places,show_thousands_separator=sep,negative_style=NegativeNumberStyle(neg))
            s=t.cell(0,0).formatted_value; n+=1
            body=s
            sign=1
            if body.startswith("(") and body.endswith(")"): body=body[1:-1]; sign=-1
            if body.startswith("-"): body=body[1:]; sign=-1
            if neg==1 and v<0: sign=-1
            body=body.replace(",","")
            cls=f"number places={places>0} neg={neg} sign={'-' if v<0 else '+'} small={abs(v)<0.5*10**-places}"
            if not re.fullmatch(r"\d+(\.\d+)?",body): rec("unparseable "+cls,v,s,"syntax"); continue
            shown=len(body.split(".")[1]) if "." in body else 0
            if shown!=places: rec("decimals-shown "+cls,v,s,f"{shown}!={places}"); continue
            got=sign*Decimal(body)
            if not near(abs(got),abs(dv),places) or (got!=0 and (got<0)!=(dv<0)): rec("value "+cls,v,s,f"got {got}")
print("evaluations",n)
for k,c in fails.most_common(25): print(c,k,ex[k])
