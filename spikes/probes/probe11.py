import warnings, os, tempfile, shutil, random
warnings.simplefilter("ignore")
from numbers_parser import Document, Border, RGB
d=tempfile.mkdtemp(dir="/tmp/scratch")
N=6
def edge(side,r,c):
    return {"top":("H",r,c),"bottom":("H",r+1,c),"left":("V",c,r),"right":("V",c+1,r)}[side]
def view(t):
    v={}
    for r in range(N):
        for c in range(N):
            b=t.cell(r,c).border
            for side in ("top","right","bottom","left"):
                x=getattr(b,side); v[(r,c,side)]=None if x is None else (x.width,tuple(x.color),int(x.style))
    return v
rnd=random.Random(3); res={"mem":0,"reload":0,"memVSreload":0,"n":0}; first={}
for trial in range(60):
    doc=Document(num_rows=N,num_cols=N); t=doc.sheets[0].tables[0]
    base=view(t)
    spec={}
    hist=[]
    for k in range(rnd.randint(1,5)):
        side=rnd.choice(["top","right","bottom","left"]); r=rnd.randrange(N); c=rnd.randrange(N)
        L=rnd.randint(1, N-(c if side in("top","bottom") else r))
        w=rnd.choice([1.0,3.0,8.0]); col=rnd.choice([(255,0,0),(0,255,0),(0,0,255)]); sty=rnd.choice(["solid","dashes","dots"])
        t.set_cell_border(r,c,side,Border(w,RGB(*col),sty),L); hist.append((side,r,c,L,w,col,sty))
        for i in range(L):
            rr,cc=(r,c+i) if side in("top","bottom") else (r+i,c)
            spec[edge(side,rr,cc)]=(w,col,{"solid":0,"dashes":1,"dots":2}[sty])
    mem=view(t); p=os.path.join(d,"b.numbers"); doc.save(p); rel=view(Document(p).sheets[0].tables[0])
    def expect(r,c,side):
        e=edge(side,r,c); return spec.get(e, base[(r,c,side)])
    exp={(r,c,s):expect(r,c,s) for (r,c,s) in mem}
    res["n"]+=1
    for name,a,b in (("mem",mem,exp),("reload",rel,exp),("memVSreload",mem,rel)):
        if a!=b:
            res[name]+=1
            if name not in first:
                k=[x for x in a if a[x]!=b[x]][0]; first[name]=(hist,k,a[k],b[k])
print(res)
for k,v in first.items(): print(k,v)
shutil.rmtree(d)
