import warnings, sys, os, tempfile, io, contextlib
warnings.simplefilter("ignore")
from numbers_parser import Document
import numbers_parser._csv2numbers as c2n
d=tempfile.mkdtemp(dir="/tmp/scratch")
for cell in ["nan","inf","1e400","1_000","١٢٣","abc"]:
    p=os.path.join(d,"a.csv"); open(p,"w",encoding="utf-8").write("h1,h2\n%s,x\n"%cell)
    sys.argv=["csv2numbers",p,"-o",os.path.join(d,"a.numbers")]
    try:
        c2n.main(); print(cell,"ok", Document(os.path.join(d,"a.numbers")).sheets[0].tables[0].cell(1,0).value)
    except SystemExit as e: print(cell,"exit",e.code)
    except Exception as e: print(cell,"ESC",type(e).__name__,e)
# merges + insert
doc=Document(); t=doc.sheets[0].tables[0]
t.merge_cells("B3:C4"); t.add_row(1,0)
print("after insert row at 0:", t.merge_ranges, t.cell(2,1).is_merged, t.cell(3,1).is_merged)
p=os.path.join(d,"m.numbers"); doc.save(p); t2=Document(p).sheets[0].tables[0]; print("reload:", t2.merge_ranges)
import shutil; shutil.rmtree(d)
