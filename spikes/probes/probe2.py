import warnings
warnings.simplefilter("ignore")
from numbers_parser.tokenizer import Tokenizer, TokenizerError
for s in ["Table 1::'a+b'", "SUM('a+b')", "'a+b':'c d'", "A1+1E+5", "1.5E-3+2", "#REF!+1", "Sheet 1::Table 1::A1", "IF(A1≥2,\"x\"\"y\",{1,2;3,4})", "-A1%", "A1 + B1", "a#REF!"]:
    try:
        t=Tokenizer(s); print(repr(s), [(x.value,x.type,x.subtype) for x in t.items], "".join(x.value for x in t.items)==s)
    except TokenizerError as e: print(repr(s), "TokenizerError", e)
    except Exception as e: print(repr(s), "ESCAPE", type(e).__name__, e)
