import warnings, glob, collections, re
warnings.simplefilter("ignore")
from numbers_parser import Document
from numbers_parser.generated import TSCEArchives_pb2 as T
names={k:v.name for k,v in T._ASTNODEARRAYARCHIVE_ASTNODETYPE.values_by_number.items()}
cnt=collections.Counter(); forms=set(); negpow=[]
for f in sorted(glob.glob("/repo/tests/data/*.numbers")):
    try: d=Document(f)
    except Exception: continue
    for s in d.sheets:
        for t in s.tables:
            try: asts=d._model.formula_ast(t._table_id)
            except Exception as e: continue
            for k,nodes in asts.items():
                seq=[names[n.AST_node_type] for n in nodes]
                cnt.update(seq)
                for i,n in enumerate(seq):
                    if n=="POWER_NODE" and "NEGATION_NODE" in seq: negpow.append((f.split("/")[-1],k,seq))
            for row in t.rows():
                for c in row:
                    if c.is_formula:
                        try: forms.add(c.formula)
                        except Exception as e: forms.add("EXC:"+type(e).__name__)
print(cnt.most_common())
print(len(forms),"distinct formulas")
for x in negpow[:6]: print(x)
print([f for f in forms if re.search(r"-[A-Z0-9(]+\^|\^-", f)][:20])
print([f for f in forms if "EXC" in f])
print([f for f in forms if "::'" in f or "'::" in f][:20])
