import warnings, glob, zipfile, io, time
warnings.simplefilter("ignore")
from numbers_parser.iwafile import IWAFile, IWACompressedChunk, is_iwa_file
import snappy
def raw_stream(data):
    return b"".join(IWACompressedChunk._decompress_all(data))
n=0; bad=0; t=time.time(); multi=0; bigs=0; badlist=[]
def handle(name, blob, src):
    global n,bad,multi,bigs
    if not name.endswith(".iwa"): return
    if not is_iwa_file(blob): print("not iwa", src, name); return
    n+=1
    try:
        f=IWAFile.from_buffer(blob,name)
        out=f.to_buffer()
        a=raw_stream(blob); b=raw_stream(out)
        if len(a)>65536: bigs+=1
        if a!=b:
            bad+=1; badlist.append((src,name,len(a),len(b)))
    except Exception as e:
        bad+=1; badlist.append((src,name,repr(e)[:100]))
for f in sorted(glob.glob("/repo/tests/data/*.numbers"))+["/repo/src/numbers_parser/data/empty.numbers"]:
    try:
        import os
        if os.path.isdir(f):
            zp=os.path.join(f,"Index.zip")
            if not os.path.exists(zp): continue
            z=zipfile.ZipFile(zp)
        else:
            z=zipfile.ZipFile(f)
    except Exception as e:
        continue
    for name in z.namelist():
        try: blob=z.read(name)
        except Exception: continue
        if name.lower().endswith("index.zip"):
            try:
                z2=zipfile.ZipFile(io.BytesIO(blob))
                for n2 in z2.namelist(): handle(n2,z2.read(n2),f)
            except Exception: pass
        else: handle(name,blob,f)
print("iwa files",n,"stream mismatches",bad,"over64k",bigs,"time",round(time.time()-t,1))
for b in badlist[:15]: print(b)
