import warnings, zipfile, io, os, shutil, tempfile, random, sys, subprocess
warnings.simplefilter("ignore")
from numbers_parser import Document
from numbers_parser.exceptions import NumbersError
src="/repo/tests/data/test-1.numbers"
data=open(src,"rb").read()
tmp=tempfile.mkdtemp(dir="/tmp/scratch")
def tryopen(b, tag):
    p=os.path.join(tmp,"x.numbers"); open(p,"wb").write(b)
    try: Document(p); return "ok"
    except NumbersError as e: return "lib:"+type(e).__name__
    except Exception as e: return "ESC:"+type(e).__name__
import collections
c=collections.Counter()
rnd=random.Random(1)
for i in range(60):
    b=bytearray(data); k=rnd.randrange(len(b)); b[k]^=1<<rnd.randrange(8); c[tryopen(bytes(b),"flip")]+=1
print("bitflips", c)
c=collections.Counter()
for n in [0,1,10,100,1000,len(data)//2,len(data)-30,len(data)-1]:
    c[tryopen(data[:n],"trunc")]+=1
print("trunc", c)
# member faults
z=zipfile.ZipFile(src); names=z.namelist()
def rebuild(mut):
    bio=io.BytesIO(); zo=zipfile.ZipFile(bio,"w")
    for n in names:
        blob=z.read(n); zo.writestr(n, mut(n,blob))
    zo.close(); return bio.getvalue()
for tag,fn in [("empty",lambda b:b""),("2bytes",lambda b:b[:2]),("3bytes",lambda b:b[:3]),("cut",lambda b:b[:len(b)//2]),("marker",lambda b:b"\x01"+b[1:]),("garbagepayload",lambda b:b[:4]+bytes(len(b)-4))]:
    c=collections.Counter()
    for target in [n for n in names if n.endswith(".iwa")][:8]:
        c[tryopen(rebuild(lambda n,b: fn(b) if n==target else b),tag)]+=1
    print(tag,c)
shutil.rmtree(tmp)
