From Coq Require Import List Arith NArith Lia Bool.
Import ListNotations.
Open Scope N_scope.

Definition bytes := list N.
Record field := { fbit : N (* bit position *); fwidth : nat }.
Definition layout := list field.

(* values aligned with the layout: Some payload iff the field is present *)
Definition vals := list (option bytes).

Fixpoint flags_of (L:layout) (vs:vals) : N :=
  match L, vs with
  | f :: L', Some _ :: vs' => N.lor (2 ^ fbit f) (flags_of L' vs')
  | _ :: L', None :: vs' => flags_of L' vs'
  | _, _ => 0 end.
Fixpoint emit (vs:vals) : bytes :=
  match vs with Some p :: r => p ++ emit r | None :: r => emit r | [] => [] end.

Fixpoint walk (L:layout) (flags:N) (buf:bytes) : option (vals * bytes) :=
  match L with
  | [] => Some ([], buf)
  | f :: L' =>
    if N.testbit flags (fbit f) then
      if Nat.leb (fwidth f) (length buf) then
        match walk L' flags (skipn (fwidth f) buf) with
        | Some (vs, r) => Some (Some (firstn (fwidth f) buf) :: vs, r) | None => None end
      else None
    else match walk L' flags buf with Some (vs, r) => Some (None :: vs, r) | None => None end
  end.

Fixpoint fits (L:layout) (vs:vals) : Prop :=
  match L, vs with
  | [], [] => True
  | f :: L', Some p :: vs' => length p = fwidth f /\ fits L' vs'
  | _ :: L', None :: vs' => fits L' vs'
  | _, _ => False end.

Fixpoint ascending (lo:option N) (L:layout) : Prop :=
  match L with [] => True | f :: L' => (match lo with Some b => b < fbit f | None => True end) /\ ascending (Some (fbit f)) L' end.

Lemma flags_bits_above L : forall vs lo b, ascending (Some lo) L -> b <= lo -> N.testbit (flags_of L vs) b = false.
Proof.
  induction L as [|f L IH]; intros vs lo b Ha Hb; cbn.
  - destruct vs; reflexivity.
  - destruct Ha as [Hlt Ha]. destruct vs as [|[p|] vs]; try reflexivity.
    + rewrite N.lor_spec, N.pow2_bits_eqb. rewrite (IH vs (fbit f) b Ha) by lia.
      rewrite orb_false_r. apply N.eqb_neq. lia.
    + apply (IH vs (fbit f) b Ha). lia.
Qed.

Theorem walk_roundtrip_generic : forall L lo vs rest,
  ascending lo L -> fits L vs ->
  forall hi, (* bits of unrelated lower positions may be set: payload flags 0x1..0x8 etc. *)
  (forall b, N.testbit hi b = true -> match lo with Some l => b <= l | None => False end) ->
  walk L (N.lor hi (flags_of L vs)) (emit vs ++ rest) = Some (vs, rest).
Proof.
  induction L as [|f L IH]; intros lo vs rest Ha Hf hi Hhi.
  - destruct vs; [reflexivity|destruct Hf].
  - destruct Ha as [Hlo Ha]. destruct vs as [|[p|] vs]; [destruct Hf| |].
    + destruct Hf as [Hlen Hf]. cbn [walk flags_of emit].
      assert (Hb : N.testbit (N.lor hi (N.lor (2 ^ fbit f) (flags_of L vs))) (fbit f) = true).
      { rewrite !N.lor_spec, N.pow2_bits_eqb, N.eqb_refl. now rewrite orb_true_r. }
      rewrite Hb. rewrite <- app_assoc.
      assert (Hle : Nat.leb (fwidth f) (length (p ++ emit vs ++ rest)) = true).
      { apply Nat.leb_le. rewrite app_length. lia. }
      rewrite Hle.
      assert (Hs : skipn (fwidth f) (p ++ emit vs ++ rest) = emit vs ++ rest).
      { rewrite <- Hlen, skipn_app, skipn_all, Nat.sub_diag. reflexivity. }
      assert (Hfn : firstn (fwidth f) (p ++ emit vs ++ rest) = p).
      { rewrite <- Hlen, firstn_app, firstn_all, Nat.sub_diag. cbn. now rewrite app_nil_r. }
      rewrite Hs, Hfn, N.lor_assoc.
      rewrite (IH (Some (fbit f)) vs rest Ha Hf (N.lor hi (2 ^ fbit f))); [reflexivity|].
      intros b Hbit. rewrite N.lor_spec, N.pow2_bits_eqb in Hbit. apply orb_prop in Hbit as [Hbit|Hbit].
      * specialize (Hhi b Hbit). destruct lo; [lia|tauto].
      * apply N.eqb_eq in Hbit. lia.
    + cbn [walk flags_of emit].
      assert (Hb : N.testbit (N.lor hi (flags_of L vs)) (fbit f) = false).
      { rewrite N.lor_spec. rewrite (flags_bits_above L vs (fbit f) (fbit f) Ha) by lia. rewrite orb_false_r.
        destruct (N.testbit hi (fbit f)) eqn:E; auto. specialize (Hhi _ E). destruct lo; [lia|tauto]. }
      rewrite Hb.
      rewrite (IH (Some (fbit f)) vs rest Ha Hf hi); auto.
      intros b Hbit. specialize (Hhi b Hbit). destruct lo; [lia|tauto].
Qed.
Print Assumptions walk_roundtrip_generic.
