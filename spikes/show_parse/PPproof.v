From Coq Require Import List Arith Lia Bool.
Import ListNotations.
Require Import PP.

Section P.
Variable prec : nat -> nat.
Notation parse := (parse prec). Notation loop := (loop prec).
Notation wf := (wf prec). Notation lvl_ge := (lvl_ge prec). Notation lvl_gt := (lvl_gt prec).
Notation stops := (stops prec).


Lemma parse_S f minp ts : parse (S f) minp ts =
    match (match ts with
      | TAtom a :: r => Some (EAtom a, r)
      | TL :: r => match parse f 0 r with
                   | Some (e, TR :: r') => Some (EParen e, r')
                   | _ => None end
      | _ => None end) with None => None | Some (lhs, r) => loop f minp lhs r end.
Proof. reflexivity. Qed.
Lemma loop_S f minp lhs ts : loop (S f) minp lhs ts =
    match ts with
    | TOp o :: r =>
        if minp <=? prec o then
          match parse f (S (prec o)) r with
          | Some (rhs, r') => loop f minp (EBin o lhs rhs) r'
          | None => None end
        else Some (lhs, ts)
    | _ => Some (lhs, ts)
    end.
Proof. reflexivity. Qed.

(* fuel monotonicity *)
Lemma mono : forall f,
  (forall minp ts x, parse f minp ts = Some x -> parse (S f) minp ts = Some x) /\
  (forall minp lhs ts x, loop f minp lhs ts = Some x -> loop (S f) minp lhs ts = Some x).
Proof.
  induction f as [|f [IHp IHl]]; split; intros; try discriminate.
  - rewrite parse_S in H. rewrite parse_S.
    destruct ts as [|[a|o| |] r]; try discriminate.
    + apply IHl. exact H.
    + destruct (parse f 0 r) as [[e [|[a|o| |] r']]|] eqn:E; try discriminate.
      rewrite (IHp _ _ _ E). apply IHl. exact H.
  - rewrite loop_S in H. rewrite loop_S.
    destruct ts as [|[a|o| |] r]; auto.
    destruct (minp <=? prec o); auto.
    destruct (parse f (S (prec o)) r) as [[rhs r']|] eqn:E; try discriminate.
    rewrite (IHp _ _ _ E). apply IHl. exact H.
Qed.

Lemma parse_mono f g minp ts x : f <= g -> parse f minp ts = Some x -> parse g minp ts = Some x.
Proof. induction 1; auto. intros. apply mono. auto. Qed.
Lemma loop_mono f g minp lhs ts x : f <= g -> loop f minp lhs ts = Some x -> loop g minp lhs ts = Some x.
Proof. induction 1; auto. intros. apply mono. auto. Qed.

Definition tail := list (nat * expr).
Definition show_tail (tl:tail) : list tok := flat_map (fun p => TOp (fst p) :: show (snd p)) tl.
Definition fold_tail (lhs:expr) (tl:tail) : expr := fold_left (fun acc p => EBin (fst p) acc (snd p)) tl lhs.

Fixpoint spine (e:expr) : expr * tail :=
  match e with EBin o l r => let '(p, tl) := spine l in (p, tl ++ [(o, r)]) | _ => (e, []) end.

Definition primary (e:expr) := match e with EBin _ _ _ => False | _ => True end.

(* chain: precedences non-increasing along the tail, each rhs strictly tighter *)
Fixpoint chain (ub:option nat) (tl:tail) : Prop :=
  match tl with [] => True
  | (o,r)::tl' => (match ub with Some u => prec o <= u | None => True end) /\ wf r /\ lvl_gt r (prec o) /\ chain (Some (prec o)) tl' end.

Definition last_prec (ub:option nat) (tl:tail) : option nat :=
  fold_left (fun _ p => Some (prec (fst p))) tl ub.

Lemma chain_app ub tl o r : chain ub tl -> (match last_prec ub tl with Some u => prec o <= u | None => True end) ->
  wf r -> lvl_gt r (prec o) -> chain ub (tl ++ [(o,r)]).
Proof.
  revert ub. induction tl as [|[o' r'] tl IH]; intros ub Hc Hl Hw Hg; cbn in *.
  - repeat split; auto.
  - destruct Hc as (A & B & C & D). repeat split; auto.
Qed.

Lemma last_prec_app ub tl o r : last_prec ub (tl ++ [(o,r)]) = Some (prec o).
Proof. unfold last_prec. rewrite fold_left_app. reflexivity. Qed.

Lemma spine_spec e : wf e ->
  let '(p, tl) := spine e in
  primary p /\ wf p /\ show e = show p ++ show_tail tl /\ fold_tail p tl = e /\ chain None tl /\
  (forall m, lvl_ge e m -> forall o r, In (o,r) tl -> m <= prec o) /\
  (match e with EBin o _ _ => last_prec None tl = Some (prec o) | _ => tl = [] end).
Proof.
  induction e as [a|o l IHl r IHr|e IH]; intros Hwf.
  - cbn. repeat split; auto. all: try (intros; exfalso; assumption). all: try (rewrite app_nil_r; reflexivity).
  - cbn [spine]. destruct Hwf as (Wl & Wr & Gl & Gr).
    specialize (IHl Wl). destruct (spine l) as [p tl].
    destruct IHl as (Pp & Wp & Sh & Fo & Ch & Lv & La).
    repeat split; auto.
    + cbn [show]. rewrite Sh. unfold show_tail. rewrite flat_map_app. cbn. rewrite app_nil_r, <- app_assoc. reflexivity.
    + unfold fold_tail. rewrite fold_left_app. cbn. unfold fold_tail in Fo. rewrite Fo. reflexivity.
    + apply chain_app; auto.
      destruct l as [a|o' l1 l2|e']; cbn in La; try (subst tl; cbn; exact I).
      rewrite La. exact Gl.
    + intros m Hm o' r' Hin. apply in_app_or in Hin. destruct Hin as [Hin|[Heq|[]]].
      * destruct l as [a|o'' l1 l2|e']; cbn in La; try (subst tl; destruct Hin).
        cbn in Gl, Hm. eapply Lv; [|exact Hin]. cbn. lia.
      * inversion Heq; subst. exact Hm.
    + apply last_prec_app.
  - cbn. repeat split; auto. all: try (intros; exfalso; assumption). all: try (rewrite app_nil_r; reflexivity).
Qed.

(* the loop consumes a well-formed tail *)
Lemma loop_tail :
  forall tl minp lhs rest ub,
    chain ub tl -> (forall o r, In (o,r) tl -> minp <= prec o) ->
    (forall o r, In (o,r) tl -> forall mp rs, stops mp rs -> lvl_ge r mp -> exists f, parse f mp (show r ++ rs) = Some (r, rs)) ->
    stops minp rest ->
    exists f, loop f minp lhs (show_tail tl ++ rest) = Some (fold_tail lhs tl, rest).
Proof.
  induction tl as [|[o r] tl IH]; intros minp lhs rest ub Hc Hm Hp Hs.
  - exists 1. cbn. destruct rest as [|[a|o| |] rs]; auto. cbn in Hs.
    destruct (Nat.leb_spec minp (prec o)); auto; lia.
  - destruct Hc as (Hub & Wr & Gr & Hc').
    assert (Hstop : stops (S (prec o)) (show_tail tl ++ rest)).
    { destruct tl as [|[o2 r2] tl2]; cbn.
      - destruct rest as [|[a|o2| |] rs]; cbn in *; auto. specialize (Hm o r (or_introl eq_refl)). lia.
      - destruct Hc' as (H2 & _). cbn in H2. lia. }
    destruct (Hp o r (or_introl eq_refl) (S (prec o)) _ Hstop) as [f1 Hf1].
    { destruct r; cbn in *; auto; lia. }
    assert (Hm' : forall o0 r0, In (o0, r0) tl -> minp <= prec o0) by (intros; apply (Hm o0 r0); right; auto).
    assert (Hp' : forall o0 r0, In (o0, r0) tl -> forall mp rs, stops mp rs -> lvl_ge r0 mp -> exists f, parse f mp (show r0 ++ rs) = Some (r0, rs))
      by (intros o0 r0 Hin; apply (Hp o0 r0); right; auto).
    destruct (IH minp (EBin o lhs r) rest (Some (prec o)) Hc' Hm' Hp' Hs) as [f2 Hf2].
    exists (S (max f1 f2)). rewrite loop_S. unfold show_tail. cbn [flat_map fst snd app].
    rewrite <- app_assoc. fold (show_tail tl).
    assert (Hle: minp <=? prec o = true) by (apply Nat.leb_le; apply (Hm o r); left; auto).
    rewrite Hle.
    rewrite (parse_mono _ (max f1 f2) _ _ _ (Nat.le_max_l _ _) Hf1).
    exact (loop_mono _ _ _ _ _ _ (Nat.le_max_r _ _) Hf2).
Qed.

Theorem show_parse : forall n e, size e <= n -> wf e ->
  forall minp rest, stops minp rest -> lvl_ge e minp ->
  exists f, parse f minp (show e ++ rest) = Some (e, rest).
Proof.
  induction n as [|n IH]; intros e Hsz Hwf minp rest Hs Hl.
  - destruct e; cbn in Hsz; lia.
  - pose proof (spine_spec e Hwf) as Sp. destruct (spine e) as [p tl] eqn:Esp.
    destruct Sp as (Pp & Wp & Sh & Fo & Ch & Lv & La).
    (* sizes of tail rhs and of paren body are smaller *)
    assert (Hsize: forall o r, In (o,r) tl -> size r <= n /\ True).
    { clear - Esp Hsz. revert p tl Esp Hsz. induction e as [a|o l IHl r IHr|e' IHe]; intros p tl Esp Hsz o' r' Hin; cbn in Esp.
      - inversion Esp; subst. destruct Hin.
      - destruct (spine l) as [p0 tl0] eqn:E0. inversion Esp; subst. cbn in Hsz.
        apply in_app_or in Hin. destruct Hin as [Hin|[Heq|[]]].
        + split; auto. destruct (IHl p tl0 eq_refl) with (o:=o') (r:=r') as [A _]; auto; try lia.
          (* IHl needs size l <= S n' ; adapt *) 
        + inversion Heq; subst. split; auto. lia.
      - inversion Esp; subst. destruct Hin. }
    assert (Hloop: exists f, loop f minp p (show_tail tl ++ rest) = Some (e, rest)).
    { rewrite <- Fo. eapply loop_tail with (ub:=None); eauto.
      intros o r Hin mp rs Hst Hlv. destruct (Hsize o r Hin) as [Hsr _].
      apply (IH r Hsr); auto.
      clear - Ch Hin. revert Ch. generalize (@None nat). induction tl as [|[o2 r2] tl IHt]; intros ub Ch; [destruct Hin|].
      destruct Ch as (_ & W & _ & C). destruct Hin as [Heq|Hin]; [inversion Heq; subst; auto|eauto]. }
    destruct Hloop as [f2 Hf2].
    rewrite Sh, <- app_assoc.
    destruct p as [a|o l r|b]; [|destruct Pp|].
    + exists (S f2). cbn. exact Hf2.
    + (* paren *)
      assert (Hb: size b <= n).
      { clear - Esp Hsz. revert tl Esp Hsz. induction e as [a|o l IHl r IHr|e' IHe]; intros tl Esp Hsz; cbn in Esp.
        - inversion Esp.
        - destruct (spine l) as [p0 tl0] eqn:E0. inversion Esp; subst. cbn in Hsz. apply (IHl tl0); auto. lia.
        - inversion Esp; subst. cbn in Hsz. lia. }
      destruct (IH b Hb Wp 0 (TR :: show_tail tl ++ rest)) as [f1 Hf1]; cbn; auto.
      { destruct b; cbn; auto. lia. }
      exists (S (max f1 f2)). cbn [PP.parse show app].
      rewrite <- app_assoc. cbn [app].
      rewrite (parse_mono _ (max f1 f2) _ _ _ (Nat.le_max_l _ _) Hf1).
      exact (loop_mono _ _ _ _ _ _ (Nat.le_max_r _ _) Hf2).
Qed.
End P.
