From Coq Require Import List Arith Lia Bool.
Import ListNotations.

Inductive tok := TAtom (a:nat) | TOp (o:nat) | TL | TR.
Inductive expr := EAtom (a:nat) | EBin (o:nat) (l r:expr) | EParen (e:expr).

Section P.
Variable prec : nat -> nat.   (* precedence of operator o; all left-assoc *)

Fixpoint show (e:expr) : list tok :=
  match e with
  | EAtom a => [TAtom a]
  | EBin o l r => show l ++ TOp o :: show r
  | EParen e => TL :: show e ++ [TR]
  end.

(* level: None = primary (infinite) *)
Definition lvl_ge (e:expr) (p:nat) : Prop :=
  match e with EBin o _ _ => p <= prec o | _ => True end.
Definition lvl_gt (e:expr) (p:nat) : Prop :=
  match e with EBin o _ _ => p < prec o | _ => True end.
Fixpoint wf (e:expr) : Prop :=
  match e with
  | EAtom _ => True
  | EBin o l r => wf l /\ wf r /\ lvl_ge l (prec o) /\ lvl_gt r (prec o)
  | EParen e => wf e
  end.

Fixpoint size (e:expr) : nat :=
  match e with EAtom _ => 1 | EBin _ l r => 1 + size l + size r | EParen e => 1 + size e end.

(* precedence climbing, fuel-based.  parse fuel minp ts ; loop fuel minp lhs ts *)
Fixpoint parse (fuel:nat) (minp:nat) (ts:list tok) {struct fuel} : option (expr * list tok) :=
  match fuel with 0 => None | S f =>
    let prim :=
      match ts with
      | TAtom a :: r => Some (EAtom a, r)
      | TL :: r => match parse f 0 r with
                   | Some (e, TR :: r') => Some (EParen e, r')
                   | _ => None end
      | _ => None end in
    match prim with None => None | Some (lhs, r) => loop f minp lhs r end
  end
with loop (fuel:nat) (minp:nat) (lhs:expr) (ts:list tok) {struct fuel} : option (expr * list tok) :=
  match fuel with 0 => None | S f =>
    match ts with
    | TOp o :: r =>
        if minp <=? prec o then
          match parse f (S (prec o)) r with
          | Some (rhs, r') => loop f minp (EBin o lhs rhs) r'
          | None => None end
        else Some (lhs, ts)
    | _ => Some (lhs, ts)
    end
  end.

(* rest must not continue the expression at level minp *)
Definition stops (minp:nat) (rest:list tok) : Prop :=
  match rest with TOp o :: _ => prec o < minp | TAtom _ :: _ => True | TL :: _ => True | TR :: _ => True | [] => True end.
End P.
